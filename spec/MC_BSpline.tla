-------------------------------- MODULE MC_BSpline --------------------------------
(* (M) for C14: the declarative piecewise-polynomial basis of BSpline.tla checked       *)
(* against the B-spline axioms on every knot multiplicity pattern:                      *)
(* knots 0^k, interior knots 1..NInt each with multiplicity 0..k-1, (NInt+1)^k;         *)
(* sample points: every knot, every mid- and quarter-point, both end points.            *)
(* One initial state per (order, multiplicity pattern); Step walks the sample points,   *)
(* so each reachable state is one (knot vector, x) evaluation.                          *)
EXTENDS BSpline, TLC, SequencesExt
CONSTANTS MaxK, NInt
VARIABLES k, mult, xi
vars == <<k, mult, xi>>
RECURSIVE Rep(_, _)
Rep(v, n) == IF n = 0 THEN <<>> ELSE <<v>> \o Rep(v, n - 1)
RECURSIVE Interior(_, _)
Interior(m, a) == IF a > NInt THEN <<>> ELSE Rep(FOfInt(a), m[a]) \o Interior(m, a + 1)
Knots(kk, m) == Rep(FOfInt(0), kk) \o Interior(m, 1) \o Rep(FOfInt(NInt + 1), kk)
T == Knots(k, mult)
N == Len(T) - k
\* sample points: quarters of [0, NInt+1]
NX == 4 * (NInt + 1)
X == FOfRat(xi, 4)
Init == /\ k \in 1..MaxK /\ mult \in [1..NInt -> 0..(k - 1)] /\ xi = 0
Step == xi < NX /\ xi' = xi + 1 /\ UNCHANGED <<k, mult>>
Next == Step
Tol == FOfStr("1e-11")
NonNegative == \A i \in 0..(N - 1) : FLe(FNeg(Tol), DBasis(T, i, k, 0, X).v)
\* zero outside [t_i, t_{i+k}]
LocalSupport == \A i \in 0..(N - 1) : (FLt(X, Kn(T, i)) \/ FLt(Kn(T, i + k), X)) => FCloseTol(DBasis(T, i, k, 0, X).v, FZ, Tol)
RECURSIVE SumB(_, _)
SumB(i, m) == IF i >= N THEN FZ ELSE FAdd(DBasis(T, i, k, m, X).v, SumB(i + 1, m))
PartitionOfUnity == FCloseTol(SumB(0, 0), FOne, Tol)
\* derivatives of a partition of unity sum to zero; derivatives of order >= k vanish
DerivSumZero == \A m \in 1..k : FCloseTol(SumB(0, m), FZ, FOfStr("1e-9"))
HighDerivZero == \A i \in 0..(N - 1) : DBasis(T, i, k, k, X).v = FZ /\ DBasis(T, i, k, k + 1, X).v = FZ
AdmissibleKnots == Admissible(T, k)
\* (G) knot vectors for replay
CaseSeq == SetToSeq({[k |-> kk, t |-> Knots(kk, m), nx |-> NX] : kk \in 1..MaxK, m \in UNION {[1..NInt -> 0..(q - 1)] : q \in 1..MaxK}} )
===============================================================================
