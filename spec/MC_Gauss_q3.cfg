CONSTANTS
  N = 3
  Entries <- E3q
  RHS <- R3
INIT Init
NEXT Next
INVARIANTS PivotNonZero RowEquivalent UpperSoFar Solved
CHECK_DEADLOCK FALSE
