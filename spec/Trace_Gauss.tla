------------------------------- MODULE Trace_Gauss -------------------------------
(* (V) for C13: recorded calls of dsolve / fdsolve judged by the postcondition          *)
(*   SolveObs:  A x = b  in value, in every first derivative and in every second        *)
(*              derivative carried by A and b (least squares: A^T (A x - b) = 0),        *)
(*              the residual being computed by TLC with DualAlgebra's rules and          *)
(*              compared with zero against the sum of the absolute values of its terms;  *)
(*   row order does not change the answer (x of the row-permuted system ~ x).            *)
EXTENDS DualAlgebra, Integers, Sequences, Json, IOUtils, TLC
Rec == ndJsonDeserialize(IOEnv.TRACE)
Strip(W) == [re |-> W.re, g |-> W.g, h |-> W.h]
AbsA(A, NS) == [re |-> FAbs(A.re), g |-> [n \in NS |-> FAbs(A.g[n])], h |-> [p \in NS \X NS |-> FAbs(A.h[p])]]
\* sum_j a_j * x_j - b   and the sum of absolute values of all its terms
RECURSIVE DotAcc(_, _, _, _, _)
DotAcc(as, xs, j, acc, NS) == IF j > Len(as) THEN acc ELSE DotAcc(as, xs, j + 1, Strip(Add(acc, Strip(Mul(as[j], xs[j], NS)), NS)), NS)
Resid(as, xs, b, NS) == Strip(Sub(DotAcc(as, xs, 1, Const(FZ, NS), NS), b, NS))
Scale(as, xs, b, NS) == Strip(Add(DotAcc([j \in 1..Len(as) |-> AbsA(as[j], NS)], [j \in 1..Len(xs) |-> AbsA(xs[j], NS)], 1, Const(FZ, NS), NS), AbsA(b, NS), NS))
IsZero(R, S, NS, kind) == /\ FClose(R.re, FZ, S.re)
                          /\ (kind # "F" => \A n \in NS : FClose(R.g[n], FZ, S.g[n]))
                          /\ (kind = "D2" => \A p \in NS \X NS : FClose(R.h[p], FZ, S.h[p]))
AllNames(e) == UNION {NamesOf(e.A[i][j]) : i \in 1..Len(e.A), j \in 1..Len(e.A[1])} \cup UNION {NamesOf(e.b[i]) : i \in 1..Len(e.b)}
                \cup UNION {NamesOf(e.x[j]) : j \in 1..Len(e.x)}
SolveObs(e) ==
  LET NS == AllNames(e) m == Len(e.A) n == Len(e.A[1])
      A == [i \in 1..m |-> [j \in 1..n |-> Abstract(e.A[i][j], NS)]]
      X == [j \in 1..n |-> Abstract(e.x[j], NS)]
      B == [i \in 1..m |-> Abstract(e.b[i], NS)]
      R == [i \in 1..m |-> Resid(A[i], X, B[i], NS)]
      S == [i \in 1..m |-> Scale(A[i], X, B[i], NS)]
      \* kinds N1 / N2: the generic Number container holding floats and first- (second-) order numbers side by side
      jk == IF e.kind \in {"D1", "N1"} THEN "D1" ELSE IF e.kind \in {"D2", "N2"} THEN "D2" ELSE "F"
  IN /\ Len(e.x) = n /\ \A j \in 1..n : IsNum(e.x[j]) /\ ShapeOK(e.x[j])
                                     /\ (IF e.kind \in {"N1", "N2"} THEN e.x[j].k \in {"F", jk} ELSE e.x[j].k = e.kind)
     /\ IF ~e.lsq THEN \A i \in 1..m : IsZero(R[i], S[i], NS, jk)
        ELSE \A k \in 1..n :                                  \* normal equations: sum_i a_ik * r_i = 0
               LET col == [i \in 1..m |-> A[i][k]]
                   N == DotAcc(col, R, 1, Const(FZ, NS), NS)
                   NSc == DotAcc([i \in 1..m |-> AbsA(col[i], NS)], S, 1, Const(FZ, NS), NS)
               IN IsZero(N, NSc, NS, jk)
\* the solution of the row-permuted system agrees with the solution (to the conditioning of the generated systems)
PermObs(e) == /\ e.o2 = "ok" /\ Len(e.x2) = Len(e.x)
              /\ LET NS == AllNames(e) \cup UNION {NamesOf(e.x2[j]) : j \in 1..Len(e.x2)} IN
                 \A j \in 1..Len(e.x) :
                    LET a == Abstract(e.x[j], NS) c == Abstract(e.x2[j], NS)
                        big == FMax(FOne, FMaxAbsSeq([t \in 1..Len(e.x) |-> e.x[t].re])) IN
                    /\ FCloseTol(a.re, c.re, FOfStr("1e-7"))
                    /\ \A nm \in NS : FClose(a.g[nm], c.g[nm], FMul(FOfInt(1000), FMax(big, FAbs(a.g[nm]))))
                    /\ \A p \in NS \X NS : FClose(a.h[p], c.h[p], FMul(FOfInt(1000), FMax(big, FAbs(a.h[p]))))
TameEvent(e) == \A i \in 1..Len(e.A), j \in 1..Len(e.A[1]) : Tame(e.A[i][j])
EventOK(e) == IF ~TameEvent(e) THEN TRUE ELSE e.o = "ok" /\ SolveObs(e) /\ PermObs(e)
VARIABLES i, ok
vars == <<i, ok>>
Init == i \in 1..Len(Rec) /\ ok = EventOK(Rec[i])
Next == UNCHANGED vars
Accepted == ok
===============================================================================
