CONSTANTS
  N = 3
  Entries <- E3t
  RHS <- R3
INIT GInit
NEXT GNext
CHECK_DEADLOCK FALSE
