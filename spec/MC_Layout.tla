-------------------------------- MODULE MC_Layout --------------------------------
(* (M) for C03 / C17 / C18: the variable-list machinery of rust/dual/dual.rs          *)
(* transcribed on CONCRETE layouts (ordered name lists + arrays), model-checked       *)
(* against the by-name meaning, for every ordered pair of duplicate-free lists over   *)
(* Names, with and without a shared Arc.                                              *)
(*   Classify      = Vars::vars_cmp (five-way, in code order)                         *)
(*   ToNewVars     = Vars::to_new_vars (copy on Arc/Value equivalence, lookup-or-zero *)
(*                   otherwise; second-order array re-indexed row and column)         *)
(*   ToUnionVars   = Vars::to_union_vars (five arms) / to_combined_vars (left then     *)
(*                   right union)                                                     *)
(*   Gradient1/2   = read-back with the fast path on equal lists                      *)
(* Derivative values are small integers, so everything is exact.                      *)
(* The state machine: pick operands (Init), then Align, then Combine / Read.          *)
EXTENDS Integers, Sequences, FiniteSets, TLC
CONSTANTS Names, Absent

SetOf(s) == {s[i] : i \in 1..Len(s)}
NoDup(s) == \A i, j \in 1..Len(s) : i # j => s[i] # s[j]
RECURSIVE ListsUpTo(_, _)
ListsUpTo(S, n) == IF n = 0 THEN {<<>>} ELSE LET L == ListsUpTo(S, n - 1) IN L \cup {Append(s, x) : s \in {t \in L : Len(t) = n - 1}, x \in S}
VarLists == {s \in ListsUpTo(Names, Cardinality(Names)) : NoDup(s)}
ReqLists == {s \in ListsUpTo(Names \cup {Absent}, Cardinality(Names) + 1) : NoDup(s)}
IndexOf(s, x) == LET S == {i \in 1..Len(s) : s[i] = x} IN IF S = {} THEN 0 ELSE CHOOSE i \in S : TRUE

\* a concrete number: [vars, arc, d, m]  (d : gradient array, m : second-order array, both by position)
\* distinct integer derivatives per (operand tag, name position in a fixed enumeration of Names)
Enum == CHOOSE f \in [Names \cup {Absent} -> 1..(Cardinality(Names) + 1)] : \A a, b \in Names \cup {Absent} : a # b => f[a] # f[b]
DVal(tag, nm) == 10 * tag + Enum[nm]
MVal(tag, n1, n2) == 100 * tag + 10 * Enum[n1] + Enum[n2]            \* asymmetric on purpose
Mk(tag, vars, arc) == [vars |-> vars, arc |-> arc, d |-> [i \in 1..Len(vars) |-> DVal(tag, vars[i])],
                       m |-> [i \in 1..Len(vars) |-> [j \in 1..Len(vars) |-> MVal(tag, vars[i], vars[j])]]]
\* by-name meaning
G(x, nm) == LET i == IndexOf(x.vars, nm) IN IF i = 0 THEN 0 ELSE x.d[i]
M(x, a, b) == LET i == IndexOf(x.vars, a) j == IndexOf(x.vars, b) IN IF i = 0 \/ j = 0 THEN 0 ELSE x.m[i][j]
SameByName(x, y, S) == \A a \in S : G(x, a) = G(y, a) /\ \A b \in S : M(x, a, b) = M(y, a, b)

\* ---- transcription --------------------------------------------------------------------
Classify(x, yvars, yarc) ==
  IF x.arc = yarc THEN "ArcEquivalent"
  ELSE IF Len(x.vars) = Len(yvars) /\ \A i \in 1..Len(yvars) : x.vars[i] = yvars[i] THEN "ValueEquivalent"
  ELSE IF Len(x.vars) >= Len(yvars) /\ \A i \in 1..Len(yvars) : yvars[i] \in SetOf(x.vars) THEN "Superset"
  ELSE IF Len(x.vars) < Len(yvars) /\ \A i \in 1..Len(x.vars) : x.vars[i] \in SetOf(yvars) THEN "Subset"
  ELSE "Difference"
ToNewVars(x, yvars, yarc, state) ==
  IF state \in {"ArcEquivalent", "ValueEquivalent"}
  THEN [vars |-> yvars, arc |-> yarc, d |-> x.d, m |-> x.m]                       \* arrays copied as they are
  ELSE [vars |-> yvars, arc |-> yarc,
        d |-> [i \in 1..Len(yvars) |-> LET k == IndexOf(x.vars, yvars[i]) IN IF k = 0 THEN 0 ELSE x.d[k]],
        m |-> [i \in 1..Len(yvars) |-> [j \in 1..Len(yvars) |->
                 LET r == IndexOf(x.vars, yvars[i]) c == IndexOf(x.vars, yvars[j]) IN IF r = 0 \/ c = 0 THEN 0 ELSE x.m[r][c]]]]
\* IndexSet::union : left's elements in order, then right's not already present
UnionList(X, Y) == X \o SelectSeq(Y, LAMBDA n : n \notin SetOf(X))
FreshArc == 99
ToUnionVars(x, y) ==
  LET st == Classify(x, y.vars, y.arc) IN
  CASE st = "ArcEquivalent" -> <<x, y>>
    [] st = "ValueEquivalent" -> <<x, ToNewVars(y, x.vars, x.arc, st)>>
    [] st = "Superset" -> <<x, ToNewVars(y, x.vars, x.arc, "Subset")>>
    [] st = "Subset" -> <<ToNewVars(x, y.vars, y.arc, st), y>>
    [] st = "Difference" -> LET u == UnionList(x.vars, y.vars) IN
                            <<ToNewVars(x, u, FreshArc, "Difference"), ToNewVars(y, u, FreshArc, "Difference")>>
\* binary operators: on equivalent lists combine the arrays directly, otherwise align first
AddAlg(x, y) ==
  LET st == Classify(x, y.vars, y.arc)
      p == IF st \in {"ArcEquivalent", "ValueEquivalent"} THEN <<x, y>> ELSE ToUnionVars(x, y)
      a == p[1] b == p[2] n == Len(a.vars)
  IN [vars |-> a.vars, arc |-> a.arc, d |-> [i \in 1..n |-> a.d[i] + b.d[i]], m |-> [i \in 1..n |-> [j \in 1..n |-> a.m[i][j] + b.m[i][j]]]]
\* product of two numbers with values xr, yr: stored second-order array is HALF the Hessian
MulAlg(x, xr, y, yr) ==
  LET st == Classify(x, y.vars, y.arc)
      p == IF st \in {"ArcEquivalent", "ValueEquivalent"} THEN <<x, y>> ELSE ToUnionVars(x, y)
      a == p[1] b == p[2] n == Len(a.vars)
  IN [vars |-> a.vars, arc |-> a.arc, d |-> [i \in 1..n |-> a.d[i] * yr + b.d[i] * xr],
      \* 2 * stored, to stay in integers:  2*(a.m*yr + b.m*xr) + (outer + outer^T)
      m2 |-> [i \in 1..n |-> [j \in 1..n |-> 2 * (a.m[i][j] * yr + b.m[i][j] * xr) + a.d[i] * b.d[j] + a.d[j] * b.d[i]]]]
EqAlg(x, y) == LET st == Classify(x, y.vars, y.arc)
                   p == IF st \in {"ArcEquivalent", "ValueEquivalent"} THEN <<x, y>> ELSE ToUnionVars(x, y)
               IN p[1].d = p[2].d /\ p[1].m = p[2].m
Gradient1Alg(x, req) == IF Len(x.vars) = Len(req) /\ \A i \in 1..Len(req) : x.vars[i] = req[i] THEN x.d        \* fast path
                        ELSE [i \in 1..Len(req) |-> LET k == IndexOf(x.vars, req[i]) IN IF k = 0 THEN 0 ELSE x.d[k]]
Gradient2Alg(x, req) == IF Len(x.vars) = Len(req) /\ \A i \in 1..Len(req) : x.vars[i] = req[i] THEN [i \in 1..Len(req) |-> [j \in 1..Len(req) |-> 2 * x.m[i][j]]]
                        ELSE [i \in 1..Len(req) |-> [j \in 1..Len(req) |->
                                LET r == IndexOf(x.vars, req[i]) c == IndexOf(x.vars, req[j]) IN IF r = 0 \/ c = 0 THEN 0 ELSE 2 * x.m[r][c]]]

\* ---- the machine ------------------------------------------------------------------------
VARIABLES pc, x, y, req, res
vars == <<pc, x, y, req, res>>
Init == /\ pc = "picked" /\ res = <<>>
        /\ \E X \in VarLists, Y \in VarLists, shared \in BOOLEAN :
              /\ (shared => X = Y)                                   \* an Arc can only be shared by equal lists
              /\ x = Mk(1, X, 1) /\ y = Mk(2, Y, IF shared THEN 1 ELSE 2)
        /\ req \in ReqLists
Align == /\ pc = "picked" /\ pc' = "aligned" /\ res' = ToUnionVars(x, y) /\ UNCHANGED <<x, y, req>>
Combine == /\ pc = "aligned" /\ pc' = "combined" /\ res' = <<AddAlg(x, y), MulAlg(x, 3, y, 5)>> /\ UNCHANGED <<x, y, req>>
Read == /\ pc = "combined" /\ pc' = "read" /\ res' = <<Gradient1Alg(x, req), Gradient2Alg(x, req)>> /\ UNCHANGED <<x, y, req>>
Next == Align \/ Combine \/ Read
U == SetOf(x.vars) \cup SetOf(y.vars)
\* aligned operands: same list and Arc, exactly the union of the names, each once, derivatives kept by name
AlignOK == pc = "aligned" =>
   /\ res[1].vars = res[2].vars /\ res[1].arc = res[2].arc
   /\ SetOf(res[1].vars) = U /\ NoDup(res[1].vars)
   /\ SameByName(res[1], x, U \cup {Absent}) /\ SameByName(res[2], y, U \cup {Absent})
   /\ Len(res[1].d) = Len(res[1].vars) /\ Len(res[1].m) = Len(res[1].vars)
\* results depend only on the by-name derivatives of the operands
CombineOK == pc = "combined" =>
   /\ SetOf(res[1].vars) = U /\ NoDup(res[1].vars)
   /\ \A a \in U : G(res[1], a) = G(x, a) + G(y, a) /\ \A b \in U : M(res[1], a, b) = M(x, a, b) + M(y, a, b)
   /\ SetOf(res[2].vars) = U
   /\ \A a \in U : LET i == IndexOf(res[2].vars, a) IN
        /\ res[2].d[i] = G(x, a) * 5 + G(y, a) * 3
        /\ \A b \in U : LET j == IndexOf(res[2].vars, b) IN
             res[2].m2[i][j] = 2 * (M(x, a, b) * 5 + M(y, a, b) * 3) + G(x, a) * G(y, b) + G(x, b) * G(y, a)
   /\ (EqAlg(x, y) <=> \A a \in U : G(x, a) = G(y, a) /\ \A b \in U : M(x, a, b) = M(y, a, b))
\* read-back: in exactly the order asked for, zero for absent names, whatever the stored order
ReadOK == pc = "read" =>
   /\ Len(res[1]) = Len(req) /\ \A i \in 1..Len(req) : res[1][i] = G(x, req[i])
   /\ \A i, j \in 1..Len(req) : res[2][i][j] = 2 * M(x, req[i], req[j])
===============================================================================
