INIT Init
NEXT Next
INVARIANTS LoadOfSave CanonIdempotent SaveLoadSave MutatedLoadsSafely UniverseShapeOK
CHECK_DEADLOCK FALSE
