INIT Init
NEXT Next
INVARIANTS LoadOfSave CanonIdempotent SaveLoadSave MutatedLoadsSafely UniverseShapeOK ShellExists
CHECK_DEADLOCK FALSE
