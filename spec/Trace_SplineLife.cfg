INIT Init
NEXT Next
INVARIANT Accepted
CHECK_DEADLOCK FALSE
