--------------------------------- MODULE BSpline ---------------------------------
(* B-spline basis functions as PIECEWISE POLYNOMIALS (declarative), deliberately not   *)
(* the evaluation / derivative recursions of rust/splines/spline.rs.                   *)
(*                                                                                    *)
(*  t     knot sequence (1-based here; the crate's index i is 0-based: Kn(t, i) = t[i+1]) *)
(*  Poly  coefficient sequence <<c0, c1, ...>> of c0 + c1 x + ...                      *)
(*  BasisPoly(t, i, k, j)  the polynomial that B_{i,k} equals on the knot span         *)
(*                         [Kn(j), Kn(j+1)), by the Cox-de Boor recursion ON POLYNOMIALS, *)
(*                         terms with a zero denominator dropped                       *)
(*  SpanOf(t, x)  the span used at x: right-continuous; at the right end point the     *)
(*                last non-empty span (so derivatives there are taken from the left)   *)
(*  DBasis(t, i, k, m, x) = (d/dx)^m BasisPoly(t, i, k, SpanOf(t, x)) at x, zero        *)
(*                outside [first knot, last knot]                                      *)
(* Every evaluation also returns the sum of the absolute values of its monomial terms, *)
(* the scale against which recorded values are compared.                               *)
EXTENDS FP, Integers, Sequences, FiniteSets

Kn(t, i) == t[i + 1]                         \* 0-based knot access, as in the crate
MinusOne == FOfInt(-1)
PZero == <<FZ>>
POne == <<FOne>>
PCoef(p, d) == IF d + 1 <= Len(p) THEN p[d + 1] ELSE FZ
PAdd(p, q) == [d \in 1..(IF Len(p) > Len(q) THEN Len(p) ELSE Len(q)) |-> FAdd(PCoef(p, d - 1), PCoef(q, d - 1))]
PScale(p, c) == [d \in 1..Len(p) |-> FMul(c, p[d])]
\* p(x) * (a + b x)
PMulLin(p, a, b) == [d \in 1..(Len(p) + 1) |-> FAdd(FMul(a, PCoef(p, d - 1)), IF d >= 2 THEN FMul(b, PCoef(p, d - 2)) ELSE FZ)]
PDeriv(p) == IF Len(p) <= 1 THEN PZero ELSE [d \in 1..(Len(p) - 1) |-> FMul(FOfInt(d), p[d + 1])]
RECURSIVE PDerivN(_, _)
PDerivN(p, m) == IF m = 0 THEN p ELSE PDerivN(PDeriv(p), m - 1)
RECURSIVE PEvalFrom(_, _, _)
PEvalFrom(p, x, d) == IF d > Len(p) THEN FZ ELSE FAdd(p[d], FMul(x, PEvalFrom(p, x, d + 1)))          \* Horner
PEval(p, x) == PEvalFrom(p, x, 1)
PAbsEval(p, x) == PEvalFrom([d \in 1..Len(p) |-> FAbs(p[d])], FAbs(x), 1)                              \* sum of |c_d x^d|

RECURSIVE BasisPoly(_, _, _, _)
BasisPoly(t, i, k, j) ==
  IF k = 1 THEN (IF j = i /\ FLt(Kn(t, i), Kn(t, i + 1)) THEN POne ELSE PZero)
  ELSE LET d1 == FSub(Kn(t, i + k - 1), Kn(t, i))
           d2 == FSub(Kn(t, i + k), Kn(t, i + 1))
           \* (x - t_i)/d1 * B_{i,k-1}
           left == IF FEq(d1, FZ) THEN PZero
                   ELSE PMulLin(BasisPoly(t, i, k - 1, j), FDiv(FNeg(Kn(t, i)), d1), FDiv(FOne, d1))
           \* (t_{i+k} - x)/d2 * B_{i+1,k-1}
           right == IF FEq(d2, FZ) THEN PZero
                    ELSE PMulLin(BasisPoly(t, i + 1, k - 1, j), FDiv(Kn(t, i + k), d2), FDiv(MinusOne, d2))
       IN PAdd(left, right)
NKnots(t) == Len(t)
First(t) == t[1]
Last(t) == t[Len(t)]
InDomain(t, x) == FLe(First(t), x) /\ FLe(x, Last(t))
\* 0-based span index
SpanOf(t, x) ==
  IF FEq(x, Last(t)) THEN LET S == {j \in 0..(Len(t) - 2) : FLt(Kn(t, j), Kn(t, j + 1))} IN CHOOSE j \in S : \A q \in S : q <= j
  ELSE CHOOSE j \in 0..(Len(t) - 2) : FLe(Kn(t, j), x) /\ FLt(x, Kn(t, j + 1))
\* value and scale of the m-th derivative of B_{i,k} at x
DBasis(t, i, k, m, x) ==
  IF ~InDomain(t, x) THEN [v |-> FZ, s |-> FZ]
  ELSE LET p == PDerivN(BasisPoly(t, i, k, SpanOf(t, x)), m) IN [v |-> PEval(p, x), s |-> PAbsEval(p, x)]
\* the spline  sum_i c_i B_i  and its m-th derivative (c: 1-based sequence of n = Len(t) - k floats)
RECURSIVE SplineFrom(_, _, _, _, _, _)
SplineFrom(t, k, c, m, x, i) ==
  IF i >= Len(c) THEN [v |-> FZ, s |-> FZ]
  ELSE LET b == DBasis(t, i, k, m, x) r == SplineFrom(t, k, c, m, x, i + 1) IN
       [v |-> FAdd(FMul(c[i + 1], b.v), r.v), s |-> FAdd(FAbs(FMul(c[i + 1], b.s)), r.s)]
Spline(t, k, c, m, x) == SplineFrom(t, k, c, m, x, 0)
\* admissible knot sequence for order k: non-decreasing, k-fold end knots
NonDecreasing(t) == \A a \in 1..(Len(t) - 1) : FLe(t[a], t[a + 1])
Admissible(t, k) == /\ Len(t) >= 2 * k /\ NonDecreasing(t)
                    /\ \A a \in 1..k : FEq(t[a], t[1]) /\ FEq(t[Len(t) + 1 - a], t[Len(t)])
                    /\ FLt(t[1], t[Len(t)])
===============================================================================
