-------------------------------- MODULE NamedCal --------------------------------
(* Built-in named calendars (rust/calendars/named) and the name grammar of          *)
(* NamedCal::try_new (rust/calendars/calendar.rs).                                  *)
(*                                                                                  *)
(*  (a) grammar on TOKEN sequences over names, "," and "|"                          *)
(*  (b) the published holiday rules of tgt, nyc, fed, ldn, stk, osl, zur, transcribed *)
(*      from named/*_script.py and the RULES constants (not from the data tables)   *)
(*  (c) one-sided lists for tro, tyo, syd, wlg, mum                                 *)
(*  (d) the names listed in the get_calendar documentation                          *)
(*  (e) behavioural equality over the supported range                               *)
EXTENDS DateArith, Sequences, FiniteSets

\* ---------------------------------------------------------------- (d) names
FullRuleNames == {"tgt", "nyc", "fed", "ldn", "stk", "osl", "zur"}
OneSidedNames == {"tro", "tyo", "syd", "wlg", "mum"}
DocNames == {"all", "bus"} \cup FullRuleNames \cup OneSidedNames

\* ---------------------------------------------------------------- (a) grammar
\* tokens: a calendar name (any string other than "," and "|"), "," and "|"
IsName(t) == t # "," /\ t # "|"
Known(t) == t \in DocNames
\* Algorithmic: split on "|" then on "," exactly as the code does on the lower-cased string.
\* SplitOn(toks, sep) = sequence of the maximal runs between occurrences of sep
RECURSIVE SplitOn(_, _, _, _)
SplitOn(toks, sep, cur, acc) ==
  IF toks = <<>> THEN Append(acc, cur)
  ELSE IF Head(toks) = sep THEN SplitOn(Tail(toks), sep, <<>>, Append(acc, cur))
  ELSE SplitOn(Tail(toks), sep, Append(cur, Head(toks)), acc)
\* a run between separators is a part "string": the concatenation of its tokens. With name tokens that
\* are whole names a part is a valid calendar name iff it is exactly one known name token
\* (two adjacent name tokens would concatenate to an unknown name; the empty run is the empty name).
PartOK(run) == Len(run) = 1 /\ IsName(run[1]) /\ Known(run[1])
ParseCalsAlg(toks) == LET parts == SplitOn(toks, ",", <<>>, <<>>) IN
                      IF \A i \in 1..Len(parts) : PartOK(parts[i])
                      THEN [ok |-> TRUE, cals |-> [i \in 1..Len(parts) |-> parts[i][1]]]
                      ELSE [ok |-> FALSE, cals |-> <<>>]
Error == [ok |-> FALSE]
ParseAlg(toks) ==
  LET halves == SplitOn(toks, "|", <<>>, <<>>) IN
  IF Len(halves) > 2 THEN Error
  ELSE IF Len(halves) = 1 THEN
       LET c == ParseCalsAlg(halves[1]) IN IF c.ok THEN [ok |-> TRUE, cals |-> c.cals, settle |-> <<>>, has_settle |-> FALSE] ELSE Error
  ELSE LET c == ParseCalsAlg(halves[1]) s == ParseCalsAlg(halves[2]) IN
       IF c.ok /\ s.ok THEN [ok |-> TRUE, cals |-> c.cals, settle |-> s.cals, has_settle |-> TRUE] ELSE Error
\* Declarative: a well-formed name is  list ( "|" list )?  with  list = name ( "," name )*  of known names
Pipes(toks) == {i \in 1..Len(toks) : toks[i] = "|"}
WellFormedList(toks) == /\ Len(toks) % 2 = 1
                        /\ \A i \in 1..Len(toks) : IF i % 2 = 1 THEN IsName(toks[i]) /\ Known(toks[i]) ELSE toks[i] = ","
WellFormed(toks) ==
  \/ (Pipes(toks) = {} /\ WellFormedList(toks))
  \/ \E p \in Pipes(toks) : /\ Pipes(toks) = {p}
                            /\ WellFormedList(SubSeq(toks, 1, p - 1))
                            /\ WellFormedList(SubSeq(toks, p + 1, Len(toks)))
NamesOf(toks) == LET idx == {i \in 1..Len(toks) : IsName(toks[i])} IN idx
ParseDecl(toks) ==
  IF ~WellFormed(toks) THEN Error
  ELSE IF Pipes(toks) = {} THEN [ok |-> TRUE, cals |-> SelectSeq(toks, IsName), settle |-> <<>>, has_settle |-> FALSE]
  ELSE LET p == CHOOSE x \in Pipes(toks) : TRUE IN
       [ok |-> TRUE, cals |-> SelectSeq(SubSeq(toks, 1, p - 1), IsName),
        settle |-> SelectSeq(SubSeq(toks, p + 1, Len(toks)), IsName), has_settle |-> TRUE]

\* ---------------------------------------------------------------- (b) published rules
E(y, o) == Easter(y) + o
D(y, m, d) == DaysFromCivil(y, m, d)
\* observance rules of pandas.tseries.holiday
SunToMon(x)   == IF Weekday(x) = 6 THEN x + 1 ELSE x
Nearest(x)    == IF Weekday(x) = 5 THEN x - 1 ELSE IF Weekday(x) = 6 THEN x + 1 ELSE x
NextMonday(x) == IF Weekday(x) = 5 THEN x + 2 ELSE IF Weekday(x) = 6 THEN x + 1 ELSE x
NextMonOrTue(x) == IF Weekday(x) \in {5, 6} THEN x + 2 ELSE IF Weekday(x) = 0 THEN x + 1 ELSE x
Nth(y, m, wd, n) == NthWeekday(y, m, wd, n)
LastOnOrBefore(y, m, d, wd) == LastWeekdayOnOrBefore(D(y, m, d), wd)
Mon == 0
Thu == 3
Fri == 4

Tgt(y) == {D(y, 1, 1), E(y, -2), E(y, 1), D(y, 5, 1), D(y, 12, 25), D(y, 12, 26)}
Fed(y) == {SunToMon(D(y, 1, 1)), Nth(y, 2, Mon, 3), LastOnOrBefore(y, 5, 31, Mon), Nearest(D(y, 7, 4)),
           Nth(y, 9, Mon, 1), Nth(y, 10, Mon, 2), SunToMon(D(y, 11, 11)), Nth(y, 11, Thu, 4), Nearest(D(y, 12, 25))}
          \cup (IF y >= 1986 THEN {Nth(y, 1, Mon, 3)} ELSE {})          \* Martin Luther King Jr. day from 1986
          \cup (IF y >= 2022 THEN {SunToMon(D(y, 6, 19))} ELSE {})      \* Juneteenth from 2022
          \cup (IF y = 2018 THEN {D(2018, 12, 5)} ELSE {})             \* day of mourning, G.H.W. Bush
Nyc(y) == Fed(y) \cup {E(y, -2)}                                        \* nyc = fed + Good Friday
Ldn(y) == LET spring == LastOnOrBefore(y, 5, 31, Mon) IN
          {NextMonday(D(y, 1, 1)), E(y, -2), E(y, 1), LastOnOrBefore(y, 8, 31, Mon),
           NextMonday(D(y, 12, 25)), NextMonOrTue(D(y, 12, 26))}
          \cup (IF y # 2020 THEN {Nth(y, 5, Mon, 1)} ELSE {D(2020, 5, 8)})       \* early May moved for VE day 2020
          \cup (IF spring <= D(2022, 5, 1) \/ spring >= D(2022, 7, 1) THEN {spring} ELSE {})
          \cup (IF y = 2022 THEN {D(2022, 6, 2), D(2022, 6, 3), D(2022, 9, 19)} ELSE {})
          \cup (IF y = 2023 THEN {D(2023, 5, 8)} ELSE {})
Stk(y) == {D(y, 1, 1), D(y, 1, 6), E(y, -2), E(y, 1), D(y, 5, 1), E(y, 39), D(y, 6, 6),
           LastOnOrBefore(y, 6, 25, Fri), D(y, 12, 24), D(y, 12, 25), D(y, 12, 26), D(y, 12, 31)}
Osl(y) == {D(y, 1, 1), E(y, -3), E(y, -2), E(y, 1), D(y, 5, 1), D(y, 5, 17), E(y, 39), E(y, 50),
           D(y, 12, 24), D(y, 12, 25), D(y, 12, 26)}
Zur(y) == {D(y, 1, 1), D(y, 1, 2), E(y, -2), E(y, 1), D(y, 5, 1), E(y, 39), E(y, 50), D(y, 8, 1),
           D(y, 12, 25), D(y, 12, 26)}
HolidaysOf(name, y) ==
  CASE name = "tgt" -> Tgt(y) [] name = "fed" -> Fed(y) [] name = "nyc" -> Nyc(y) [] name = "ldn" -> Ldn(y)
    [] name = "stk" -> Stk(y) [] name = "osl" -> Osl(y) [] name = "zur" -> Zur(y)
    [] name \in {"all", "bus"} -> {}
IsWeekdayDay(d) == Weekday(d) < 5
WeekdayHolidays(name, y) == {d \in HolidaysOf(name, y) : IsWeekdayDay(d) /\ Year(d) = y}
\* week masks: "all" has none, every other built-in calendar closes Saturday and Sunday
MaskOf(name) == IF name = "all" THEN {} ELSE {5, 6}

\* ---------------------------------------------------------------- (c) one-sided lists
\* documented fixed-date and Easter-linked holidays; every WEEKDAY occurrence must be a holiday
OneSided(name, y) ==
  CASE name = "tro" -> {D(y, 1, 1), E(y, -2), D(y, 7, 1), D(y, 11, 11), D(y, 12, 25), D(y, 12, 26)}
                        \cup (IF y >= 2021 THEN {D(y, 9, 30)} ELSE {})
    [] name = "syd" -> {D(y, 1, 1), D(y, 1, 26), E(y, -2), E(y, 1), D(y, 4, 25), D(y, 12, 25), D(y, 12, 26)}
    [] name = "wlg" -> {D(y, 1, 1), D(y, 1, 2), D(y, 2, 6), E(y, -2), E(y, 1), D(y, 4, 25), D(y, 12, 25), D(y, 12, 26)}
    [] name = "mum" -> {D(y, 1, 26), E(y, -2), D(y, 4, 14), D(y, 5, 1), D(y, 8, 15), D(y, 10, 2), D(y, 12, 25)}
    [] name = "tyo" -> {D(y, 1, 1), D(y, 1, 2), D(y, 1, 3), D(y, 2, 11), D(y, 4, 29), D(y, 5, 3), D(y, 5, 4),
                        D(y, 5, 5), D(y, 11, 3), D(y, 11, 23), D(y, 12, 31)}
WeekdayOneSided(name, y) == {d \in OneSided(name, y) : IsWeekdayDay(d)}

\* ---------------------------------------------------------------- rule-level theorems (checked by MC_NamedCal)
FedIsNycWithoutGoodFriday(y) == /\ Fed(y) = Nyc(y) \ {E(y, -2)}
                                /\ E(y, -2) \notin Fed(y)          \* no fed rule ever lands on Good Friday
GoodFridayIsFriday(y) == Weekday(E(y, -2)) = 4 /\ Weekday(Easter(y)) = 6
\* observances never leave the year, so per-year comparison is complete
NoSpill(name, y) == \A d \in HolidaysOf(name, y) : Year(d) = y

\* ---------------------------------------------------------------- (e) equality
\* two calendars given as predicates agree on the supported range
EqOnRange(busA(_), stlA(_), busB(_), stlB(_)) ==
  \A d \in RangeLo..RangeHi : busA(d) = busB(d) /\ stlA(d) = stlB(d)
===============================================================================
