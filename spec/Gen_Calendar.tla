------------------------------ MODULE Gen_Calendar ------------------------------
(* (G) writes the calendar family of MC_Calendar's Init as ndjson for replay into the crate. *)
EXTENDS MC_Calendar, Json, IOUtils
ASSUME ndJsonSerialize(IOEnv.OUT, CaseSeq)
ASSUME PrintT(<<"GEN", Len(CaseSeq)>>)
GInit == bh = {} /\ sh = {} /\ mask = {} /\ q = [f |-> "roll", d |-> W0, m |-> "Act", s |-> FALSE]
         /\ pc = "done" /\ cur = W0 /\ dir = 0 /\ rev = FALSE /\ cnt = 0
GNext == UNCHANGED vars
===============================================================================
