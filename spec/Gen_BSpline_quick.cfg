CONSTANTS
  MaxK = 4
  NInt = 3
INIT GInit
NEXT GNext
CHECK_DEADLOCK FALSE
