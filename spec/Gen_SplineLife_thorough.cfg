INIT GInit
NEXT GNext
CONSTANT MaxOps = 4
CHECK_DEADLOCK FALSE
