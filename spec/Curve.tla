---------------------------------- MODULE Curve ----------------------------------
(* Discount / index curves of rust/curves: node selection, the five interpolation    *)
(* rules and the derivative-order switch.                                            *)
(*                                                                                  *)
(*  IndexLeftAlg   the recursive bisection of curves/interpolation/utils.rs          *)
(*                 (incl. its n = 3 special case), one recursion level per Step      *)
(*  IndexLeftDecl  "the interval whose right end is the first node on or after the   *)
(*                 value, clamped to the first and last intervals"                   *)
(*  Value          the closed form of each rule on DualAlgebra numbers, so that      *)
(*                 gradients and Hessians with respect to node values come out of    *)
(*                 the same definitions as the values                                *)
(*  SetOrderNodes  the nine arms of CurveDF::set_ad_order on the node list           *)
(* Node dates are DAY NUMBERS (the crate uses seconds; every formula below only uses  *)
(* ratios and products of time differences, which are scale invariant).               *)
EXTENDS DualAlgebra, Integers, Sequences, TLC

\* ---------------------------------------------------------------- interval selection
\* 0-based left index, as the crate returns it.  st = [lst, lc] : remaining slice and accumulated left count
ILStart(lst) == [lst |-> lst, lc |-> 0, done |-> FALSE]
ILStep(st, v) ==
  LET n == Len(st.lst) IN
  IF n = 2 THEN [st EXCEPT !.done = TRUE]
  ELSE LET split == (n - 1) \div 2                       \* 0-based index of the middle element
           mid == st.lst[split + 1]
       IN IF n = 3 /\ v = mid THEN [st EXCEPT !.done = TRUE]
          ELSE IF v <= mid THEN [st EXCEPT !.lst = SubSeq(st.lst, 1, split + 1)]
          ELSE [st EXCEPT !.lst = SubSeq(st.lst, split + 1, n), !.lc = st.lc + split]
RECURSIVE ILRun(_, _)
ILRun(st, v) == IF st.done THEN st.lc ELSE ILRun(ILStep(st, v), v)
IndexLeftAlg(lst, v) == ILRun(ILStart(lst), v)
\* declaratively: j = position (1-based) of the first element >= v (Len+1 if none); the interval is [j-1, j],
\* clamped to the first and the last interval; returned 0-based left index = clamp(j - 2, 0, Len - 2)
FirstAtOrAfter(lst, v) == LET S == {j \in 1..Len(lst) : lst[j] >= v} IN IF S = {} THEN Len(lst) + 1 ELSE CHOOSE j \in S : \A k \in S : j <= k
Clamp(x, lo, hi) == IF x < lo THEN lo ELSE IF x > hi THEN hi ELSE x
IndexLeftDecl(lst, v) == Clamp(FirstAtOrAfter(lst, v) - 2, 0, Len(lst) - 2)

\* ---------------------------------------------------------------- interpolation rules
\* nodes: sequence of [d |-> day, v |-> concrete number], sorted by day.   x: day number of the look-up
Rules == {"linear", "log_linear", "linear_zero_rate", "flat_forward", "flat_backward"}
NodeNames(nodes) == UNION {NamesOf(nodes[i].v) : i \in 1..Len(nodes)}
Days(nodes) == [i \in 1..Len(nodes) |-> nodes[i].d]
FI(n) == FOfInt(n)
\* linear interpolation of abstract numbers with a float weight:  Y1 + (Y2 - Y1) * w  =  (1-w) Y1 + w Y2
LinW(Y1, Y2, w, NS) == Lin(FSub(FOne, w), Y1, w, Y2, NS)
Scalar(A, c, NS) == Lin(c, A, FZ, A, NS)
Strip(W) == [re |-> W.re, g |-> W.g, h |-> W.h]
\* the rule's closed form of just the two nodes of interval i (1-based left node), returned with scales
Value(rule, nodes, x, NS) ==
  LET i == IndexLeftDecl(Days(nodes), x) + 1
      x1 == nodes[i].d x2 == nodes[i + 1].d x0 == nodes[1].d
      Y1 == Abstract(nodes[i].v, NS) Y2 == Abstract(nodes[i + 1].v, NS)
      w == FDiv(FI(x - x1), FI(x2 - x1))
  IN CASE rule = "linear" -> LinW(Y1, Y2, w, NS)
       [] rule = "log_linear" -> Exp(Strip(LinW(Strip(Log(Y1, NS)), Strip(Log(Y2, NS)), w, NS)), NS)
       [] rule = "linear_zero_rate" ->
            \* continuously compounded zero rate r(t) = -ln(v)/t measured from the first node, linear in t;
            \* in the first interval (t1 = 0) the rate is flat at r2
            LET t1 == x1 - x0 t2 == x2 - x0 t == x - x0
                R2 == Strip(Scalar(Strip(Log(Y2, NS)), FDiv(MOne, FI(t2)), NS))
                R == IF t1 = 0 THEN R2
                     ELSE LET R1 == Strip(Scalar(Strip(Log(Y1, NS)), FDiv(MOne, FI(t1)), NS)) IN
                          Strip(LinW(R1, R2, FDiv(FI(t - t1), FI(t2 - t1)), NS))
            IN Exp(Strip(Scalar(R, FI(-t), NS)), NS)
       [] rule = "flat_forward" -> IF x >= x2 THEN Ident(Y2, NS) ELSE Ident(Y1, NS)      \* left value up to but excluding the right node
       [] rule = "flat_backward" -> IF x <= x1 THEN Ident(Y1, NS) ELSE Ident(Y2, NS)     \* right value after the left node

\* ---------------------------------------------------------------- derivative order
Tag(id, i) == id \o ToString(i)            \* '<curve id><i>', i counted from 0 in date order
\* what set_ad_order does to one node value (a concrete number), at 0-based position i
SetOrderNode(v, o, id, i) ==
  CASE o = 0 -> [k |-> "F", re |-> v.re]
    [] o = 1 -> (CASE v.k = "F" -> [k |-> "D1", re |-> v.re, vars |-> <<Tag(id, i)>>, d |-> <<FOne>>]
                   [] v.k = "D1" -> v
                   [] v.k = "D2" -> [k |-> "D1", re |-> v.re, vars |-> v.vars, d |-> v.d])
    [] o = 2 -> (CASE v.k = "F" -> [k |-> "D2", re |-> v.re, vars |-> <<Tag(id, i)>>, d |-> <<FOne>>, raw2 |-> <<<<FZ>>>>]
                   [] v.k = "D1" -> [k |-> "D2", re |-> v.re, vars |-> v.vars, d |-> v.d, raw2 |-> [a \in 1..Len(v.vars) |-> [b \in 1..Len(v.vars) |-> FZ]]]
                   [] v.k = "D2" -> v)
\* comparison of a logged node value with an expected one (stored fields only)
SameNode(x, y) == /\ x.k = y.k /\ x.re = y.re
                  /\ (y.k # "F" => x.vars = y.vars /\ x.d = y.d)
                  /\ (y.k = "D2" => x.raw2 = y.raw2)
===============================================================================
