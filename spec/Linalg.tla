---------------------------------- MODULE Linalg ----------------------------------
(* Tensor products of rust/dual/linalg (dmul11_, dmul21_, dmul22_, douter11_ on      *)
(* generic numbers; fdmul* with a float left operand, dfmul* with a float right      *)
(* operand; fouter11_), by their definitions on DualAlgebra numbers:                 *)
(*   dot(a, b)      = sum_k a_k b_k                                                   *)
(*   (A b)_i        = dot(row_i(A), b)                                                *)
(*   (A B)_ij       = dot(row_i(A), col_j(B))                                         *)
(*   outer(a, b)_ij = a_i b_j                                                         *)
(* Part of the specification's growth beyond the listed properties: the solver's      *)
(* least-squares mode (C13) and spline evaluation (C15) are built on these.           *)
EXTENDS DualAlgebra, Integers, Sequences
Strip(W) == [re |-> W.re, g |-> W.g, h |-> W.h]
AbsA(A, NS) == [re |-> FAbs(A.re), g |-> [n \in NS |-> FAbs(A.g[n])], h |-> [p \in NS \X NS |-> FAbs(A.h[p])]]
RECURSIVE DotAcc(_, _, _, _, _)
DotAcc(as, bs, k, acc, NS) == IF k > Len(as) THEN acc ELSE DotAcc(as, bs, k + 1, Strip(Add(acc, Strip(Mul(as[k], bs[k], NS)), NS)), NS)
\* value and scale (sum of absolute terms) of a dot product
Dot(as, bs, NS) == LET W == DotAcc(as, bs, 1, Const(FZ, NS), NS)
                       S == DotAcc([k \in 1..Len(as) |-> AbsA(as[k], NS)], [k \in 1..Len(bs) |-> AbsA(bs[k], NS)], 1, Const(FZ, NS), NS)
                   IN [re |-> W.re, g |-> W.g, h |-> W.h, sre |-> S.re, sg |-> S.g, sh |-> S.h]
Row(M, i) == M[i]
Col(M, j) == [i \in 1..Len(M) |-> M[i][j]]
===============================================================================
