INIT Init
NEXT Next
INVARIANT Accepted
POSTCONDITION Post
CHECK_DEADLOCK FALSE
