CONSTANTS
  N = 5
  MaxQ = 4
  MaxOps = 0
INIT GInit
NEXT GNext
CHECK_DEADLOCK FALSE
