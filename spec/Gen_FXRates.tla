------------------------------ MODULE Gen_FXRates ------------------------------
EXTENDS MC_FXRates, Json, IOUtils
ASSUME ndJsonSerialize(IOEnv.OUT, CaseSeq)
ASSUME PrintT(<<"GEN", Len(CaseSeq)>>)
GInit == st = [phase |-> "none"] /\ base = <<>> /\ mixed = FALSE /\ order = 0 /\ ver = <<>> /\ nops = 0 /\ last = "gen"
GNext == UNCHANGED vars
===============================================================================
