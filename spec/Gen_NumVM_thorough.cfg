CONSTANTS
  Names = {"a", "b", "c", "e"}
  Absent = "z"
INIT Init
NEXT Next
CHECK_DEADLOCK FALSE
