---------------------------------- MODULE PyNum ----------------------------------
(* The Python-facing method table of Dual / Dual2 (rust/dual/dual_py.rs): what a      *)
(* Python user of rateslib.dual actually calls.  Every method is a thin dispatch on   *)
(* the kind of `other` over the core operators, and the table below says which core   *)
(* operation, in which operand order, each name denotes - and which pairings raise.   *)
(*                                                                                    *)
(*   x.__add__(o) = x + o      x.__radd__(o) = o + x     (same for sub, mul, truediv) *)
(*   x.__pow__(p) = x ^ p  for a float p only; a dual exponent raises TypeError       *)
(*   first order with second order in either position raises TypeError (it is never   *)
(*   computed, and never a panic: the Python layer refuses before the core would)     *)
(*   comparisons: by value; __eq__ by value and derivatives by name                   *)
(*   __float__ = the value;  to_dual2 / to_dual = raise / lower the order             *)
(*   pickle: Dual.__new__ applied to x.__getnewargs__() must succeed and, followed by *)
(*   __setstate__(x.__getstate__()), rebuild x exactly; to_json is the tagged form    *)
(*                                                                                    *)
(* A step {op: "py", name, a, b} of a NumVM program is judged by translating it into  *)
(* the core instruction it denotes and applying NumVM's own verdict to the recorded   *)
(* result; an exception is a recorded result [k |-> "E", e |-> class].                *)
EXTENDS NumVM, TLC

PyCore == [__add__ |-> [op |-> "add", swap |-> FALSE], __radd__ |-> [op |-> "add", swap |-> TRUE],
           __sub__ |-> [op |-> "sub", swap |-> FALSE], __rsub__ |-> [op |-> "sub", swap |-> TRUE],
           __mul__ |-> [op |-> "mul", swap |-> FALSE], __rmul__ |-> [op |-> "mul", swap |-> TRUE],
           __truediv__ |-> [op |-> "div", swap |-> FALSE], __rtruediv__ |-> [op |-> "div", swap |-> TRUE]]
PyCmp == [__eq__ |-> "eq", __lt__ |-> "lt", __le__ |-> "le", __gt__ |-> "gt", __ge__ |-> "ge"]
PyUn == [__neg__ |-> "neg", __exp__ |-> "exp", __abs__ |-> "abs", __log__ |-> "log", __norm_cdf__ |-> "ncdf", __norm_inv_cdf__ |-> "incdf"]
Raises(st, cls) == st.o = "ok" /\ st.res.k = "E" /\ st.res.e = cls
PyRefused(a, b) == (a.k = "D1" /\ b.k = "D2") \/ (a.k = "D2" /\ b.k = "D1")
\* the contained number of a container register (Python hands the method a bare float, Dual or Dual2)
Bared(x) == IF Wrapped(x) THEN [f \in (DOMAIN x) \ {"n"} |-> x[f]] ELSE x

PyVerdict(P, s) ==
  LET st == P.steps[s] ins == st.ins name == ins.name
      a == IF Has(ins, "a") THEN Reg(P, ins.a) ELSE [k |-> "none"]
      b == IF Has(ins, "b") THEN Bared(Reg(P, ins.b)) ELSE [k |-> "none"]
  IN
  IF a.k = "dead" \/ b.k = "dead" \/ st.o = "skip" THEN "skip"
  \* no method of the table may panic on arguments in its domain (outside it - the inverse normal cdf of a value
  \* outside (0, 1) - the core's behaviour is not specified by any property and is not judged here either)
  ELSE IF st.o = "panic" THEN (IF name \in DOMAIN PyUn /\ IsNum(a) /\ ~InDomUn(PyUn[name], a, FZ) THEN "skip" ELSE "bad")
  ELSE IF name = "new" THEN
         LET spec == [t |-> ins.kind, re |-> ins.re, vars |-> ins.vars, d |-> ins.d] @@ (IF Has(ins, "d2half") THEN [d2half |-> ins.d2half] ELSE <<>>)
             o == IF st.res.k = "E" THEN "err" ELSE "ok"
         IN IF st.res.k = "E" /\ st.res.e # "ValueError" THEN "bad"           \* bad arguments are a ValueError
            ELSE LeafVerdictOf(P, [spec |-> spec, o |-> o, res |-> st.res])
  \* the static constructors Dual.vars_from / Dual2.vars_from: what try_new_from builds (bad arguments are a ValueError)
  ELSE IF name = "vars_from" THEN
         IF ~(a.k \in {"D1", "D2"}) \/ Wrapped(a) THEN "skip"
         ELSE LET spec == [t |-> IF a.k = "D1" THEN "D1from" ELSE "D2from", re |-> ins.re, vars |-> ins.vars, d |-> ins.d, from |-> ins.a]
                          @@ (IF Has(ins, "d2half") THEN [d2half |-> ins.d2half] ELSE <<>>)
                  o == IF st.res.k = "E" THEN "err" ELSE "ok"
              IN IF st.res.k = "E" /\ st.res.e # "ValueError" THEN "bad"
                 ELSE LeafVerdictOf(P, [spec |-> spec, o |-> o, res |-> st.res])
  ELSE IF name = "adorder" THEN V(IF ins.order \in 0..2 THEN st.res.k = "O" /\ st.res.o = ins.order ELSE Raises(st, "ValueError"))
  ELSE IF ~(a.k \in {"D1", "D2"}) \/ Wrapped(a) THEN "skip"
  ELSE IF name \in DOMAIN PyCore THEN
         IF ~IsNum(b) THEN "skip"
         ELSE IF PyRefused(a, b) THEN V(Raises(st, "TypeError"))
         ELSE LET c == PyCore[name] IN BinVerdict(c.op, IF c.swap THEN b ELSE a, IF c.swap THEN a ELSE b, st)
  ELSE IF name = "__pow__" THEN
         IF ~IsNum(b) THEN "skip"
         ELSE IF b.k # "F" THEN V(Raises(st, "TypeError"))                   \* no dual exponents
         ELSE UnVerdict("pow", a, b.re, st)
  ELSE IF name \in DOMAIN PyCmp THEN
         IF ~IsNum(b) THEN "skip"
         ELSE IF PyRefused(a, b) THEN V(Raises(st, "TypeError"))
         ELSE CmpVerdict(PyCmp[name], a, b, st)
  ELSE IF name \in DOMAIN PyUn THEN UnVerdict(PyUn[name], a, FZ, st)
  \* read-backs: the manifold gradient is the core one; ptr_eq tells whether two numbers share their variable list
  ELSE IF name = "grad1_manifold" THEN ReadVerdict("manifold", ins, a, st)
  ELSE IF name = "ptr_eq" THEN (IF ~IsNum(b) \/ b.k # a.k THEN "skip" ELSE VarsVerdict("ptr_eq", a, b, st))
  ELSE IF ~(st.o = "ok") THEN "bad"
  ELSE LET y == st.res IN
       CASE name = "__float__" -> V(y.k = "F" /\ y.re = a.re)
         [] name = "real" -> V(y.k = "F" /\ y.re = a.re)                      \* the getters show what is stored
         [] name = "vars" -> V(y.k = "S" /\ y.s = a.vars)
         [] name = "to_dual2" -> V(IsNum(y) /\ ShapeOK(y) /\ Raised(a, y))
         [] name = "to_dual" -> V(IsNum(y) /\ ShapeOK(y) /\ Lowered(a, y))
         \* the object pickle creates first, then the one it ends with, then the JSON text read back: all x itself
         [] name \in {"renew", "pickle", "to_json"} -> V(IsNum(y) /\ ShapeOK(y) /\ SameStored(a, y))
         [] OTHER -> "bad"
\* a Python-level operation and the core operation it denotes, where the program holds both, agree bit for bit (by name)
PyTwinOf(P, s) ==
  LET ins == P.steps[s].ins IN
  IF ~(ins.name \in DOMAIN PyCore) THEN 0
  ELSE LET c == PyCore[ins.name] x == IF c.swap THEN ins.b ELSE ins.a y == IF c.swap THEN ins.a ELSE ins.b
           C == {t \in 1..Len(P.steps) : /\ P.steps[t].ins.op = c.op /\ Has(P.steps[t].ins, "b") /\ P.steps[t].ins.a = x /\ P.steps[t].ins.b = y
                                         /\ Has(P.steps[t].ins, "fa") /\ P.steps[t].ins.fa = "r" /\ P.steps[t].ins.fb = "r"}
       IN IF C = {} THEN 0 ELSE CHOOSE t \in C : TRUE
PyTwinVerdict(P, s) ==
  LET t == PyTwinOf(P, s) IN
  IF t = 0 THEN "skip"
  ELSE LET x == P.steps[s] y == P.steps[t] IN
       IF x.o # "ok" \/ y.o # "ok" \/ ~IsNum(x.res) \/ ~IsNum(y.res) THEN "skip"
       \* by name: __radd__ / __rmul__ evaluate self + other, whose variable list is ordered differently from other + self
       ELSE V(x.res.k = y.res.k /\ SameByName(x.res, y.res, NamesOf(x.res) \cup NamesOf(y.res)))
AnyVerdict(P, s) == IF P.steps[s].ins.op = "py"
                    THEN (IF PyVerdict(P, s) = "bad" \/ PyTwinVerdict(P, s) = "bad" THEN "bad" ELSE PyVerdict(P, s))
                    ELSE StepVerdict(P, s)
===============================================================================
