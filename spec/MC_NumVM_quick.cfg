CONSTANTS
  MaxDepth = 2
INIT Init
NEXT Next
INVARIANTS ValueMatchesPlain GradMatchesFD HessMatchesFD HessSymmetricInv FloatIsConstant
CHECK_DEADLOCK FALSE
