CONSTANTS
  MaxK = 4
  NInt = 3
INIT Init
NEXT Next
INVARIANTS NonNegative LocalSupport PartitionOfUnity DerivSumZero HighDerivZero AdmissibleKnots
CHECK_DEADLOCK FALSE
