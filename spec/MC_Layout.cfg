CONSTANTS
  Names = {"a", "b", "c"}
  Absent = "z"
INIT Init
NEXT Next
INVARIANTS AlignOK CombineOK ReadOK
CHECK_DEADLOCK FALSE
