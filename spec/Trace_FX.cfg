INIT Init
NEXT Next
INVARIANTS Accepted SpecConsistent
ALIAS Alias
CHECK_DEADLOCK TRUE
