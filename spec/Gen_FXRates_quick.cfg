CONSTANTS
  N = 4
  MaxQ = 3
  MaxOps = 0
INIT GInit
NEXT GNext
CHECK_DEADLOCK FALSE
