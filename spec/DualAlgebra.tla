------------------------------- MODULE DualAlgebra -------------------------------
(* Forward-mode automatic differentiation to second order, BY VARIABLE NAME.        *)
(*                                                                                  *)
(* Concrete numbers (as the crate stores and the harness logs them):                *)
(*   [k |-> "F", re]                              a float                           *)
(*   [k |-> "D1", re, vars, d]                    first order: ordered names, gradient *)
(*   [k |-> "D2", re, vars, d, raw2]              second order: raw2 is the STORED     *)
(*                                                array, i.e. HALF the Hessian         *)
(* Abstract numbers (what the properties talk about): over a finite name set NS,     *)
(*   [re, g \in [NS -> FP], h \in [NS \X NS -> FP]]     h is the TRUE Hessian         *)
(* A name that a number does not carry has derivative zero.                          *)
(*                                                                                  *)
(* The rules below are the textbook rules (sum, product, QUOTIENT, chain), not the   *)
(* crate's formulas (which store h/2, divide as a * b^-1, symmetrise outer products).*)
(* Each rule also returns the sum of the absolute values of its terms (sre, sg, sh), *)
(* the scale against which a recorded result is compared (|x - want| <= 1e-9*scale + *)
(* 1e-12), so that rounding in a different operation order never raises an alarm but *)
(* a wrong sign, factor or index (an O(1) relative error in some term) always does.  *)
EXTENDS FP, FiniteSets

SeqToSet(s) == {s[i] : i \in 1..Len(s)}
NoDup(s) == \A i, j \in 1..Len(s) : i # j => s[i] # s[j]
IsNum(x) == x.k \in {"F", "D1", "D2"}
NamesOf(x) == IF x.k \in {"D1", "D2"} THEN SeqToSet(x.vars) ELSE {}
Idx(x, nm) == LET S == {i \in 1..Len(x.vars) : x.vars[i] = nm} IN IF S = {} THEN 0 ELSE CHOOSE i \in S : \A j \in S : i <= j
G(x, nm) == IF x.k = "F" THEN FZ ELSE LET i == Idx(x, nm) IN IF i = 0 THEN FZ ELSE x.d[i]
\* the true Hessian is twice the stored array
H(x, a, b) == IF x.k # "D2" THEN FZ
              ELSE LET i == Idx(x, a) j == Idx(x, b) IN IF i = 0 \/ j = 0 THEN FZ ELSE FMul(FTwo, x.raw2[i][j])
Abstract(x, NS) == [re |-> x.re, g |-> [n \in NS |-> G(x, n)], h |-> [p \in NS \X NS |-> H(x, p[1], p[2])]]
Const(c, NS) == [re |-> c, g |-> [n \in NS |-> FZ], h |-> [p \in NS \X NS |-> FZ]]
Rank(k) == IF k = "F" THEN 0 ELSE IF k = "D1" THEN 1 ELSE 2
KindOfRank(r) == IF r = 0 THEN "F" ELSE IF r = 1 THEN "D1" ELSE "D2"
MaxI(a, b) == IF a > b THEN a ELSE b

\* ---- rules: result records [re, g, h, sre, sg, sh] ---------------------------------------
\* linear combination ca*A + cb*B
Lin(ca, A, cb, B, NS) ==
  [re |-> FAdd(FMul(ca, A.re), FMul(cb, B.re)),
   g |-> [n \in NS |-> FAdd(FMul(ca, A.g[n]), FMul(cb, B.g[n]))],
   h |-> [p \in NS \X NS |-> FAdd(FMul(ca, A.h[p]), FMul(cb, B.h[p]))],
   sre |-> FAdd(FAbs(FMul(ca, A.re)), FAbs(FMul(cb, B.re))),
   sg |-> [n \in NS |-> FAdd(FAbs(FMul(ca, A.g[n])), FAbs(FMul(cb, B.g[n])))],
   sh |-> [p \in NS \X NS |-> FAdd(FAbs(FMul(ca, A.h[p])), FAbs(FMul(cb, B.h[p])))]]
MOne == FOfInt(-1)
Add(A, B, NS) == Lin(FOne, A, FOne, B, NS)
Sub(A, B, NS) == Lin(FOne, A, MOne, B, NS)
Neg(A, NS) == Lin(MOne, A, FZ, A, NS)
Ident(A, NS) == Lin(FOne, A, FZ, A, NS)
\* product rule
Mul(A, B, NS) ==
  [re |-> FMul(A.re, B.re),
   g |-> [n \in NS |-> FAdd(FMul(A.g[n], B.re), FMul(B.g[n], A.re))],
   h |-> [p \in NS \X NS |-> FAdd(FAdd(FMul(A.h[p], B.re), FMul(B.h[p], A.re)),
                                 FAdd(FMul(A.g[p[1]], B.g[p[2]]), FMul(A.g[p[2]], B.g[p[1]])))],
   sre |-> FAbs(FMul(A.re, B.re)),
   sg |-> [n \in NS |-> FAdd(FAbs(FMul(A.g[n], B.re)), FAbs(FMul(B.g[n], A.re)))],
   sh |-> [p \in NS \X NS |-> FAdd(FAdd(FAbs(FMul(A.h[p], B.re)), FAbs(FMul(B.h[p], A.re))),
                                  FAdd(FAbs(FMul(A.g[p[1]], B.g[p[2]])), FAbs(FMul(A.g[p[2]], B.g[p[1]]))))]]
\* quotient rule, written directly
Div(A, B, NS) ==
  LET q == FDiv(A.re, B.re)
      qg == [n \in NS |-> FDiv(FSub(A.g[n], FMul(q, B.g[n])), B.re)]
      sqg == [n \in NS |-> FDiv(FAdd(FAbs(A.g[n]), FAbs(FMul(q, B.g[n]))), FAbs(B.re))]
  IN [re |-> q, g |-> qg,
      h |-> [p \in NS \X NS |-> FDiv(FSub(FSub(FSub(A.h[p], FMul(qg[p[1]], B.g[p[2]])), FMul(qg[p[2]], B.g[p[1]])), FMul(q, B.h[p])), B.re)],
      sre |-> FAbs(q), sg |-> sqg,
      sh |-> [p \in NS \X NS |-> FDiv(FAdd(FAdd(FAdd(FAbs(A.h[p]), FAbs(FMul(sqg[p[1]], B.g[p[2]]))), FAbs(FMul(sqg[p[2]], B.g[p[1]]))), FAbs(FMul(q, B.h[p]))), FAbs(B.re))]]
\* chain rule for f(A): f0 = f(a), f1 = f'(a), f2 = f''(a)
Chain(A, f0, f1, f2, NS) ==
  [re |-> f0,
   g |-> [n \in NS |-> FMul(f1, A.g[n])],
   h |-> [p \in NS \X NS |-> FAdd(FMul(f1, A.h[p]), FMul(f2, FMul(A.g[p[1]], A.g[p[2]])))],
   sre |-> FAbs(f0),
   sg |-> [n \in NS |-> FAbs(FMul(f1, A.g[n]))],
   sh |-> [p \in NS \X NS |-> FAdd(FAbs(FMul(f1, A.h[p])), FAbs(FMul(f2, FMul(A.g[p[1]], A.g[p[2]]))))]]
Exp(A, NS) == LET e == FExp(A.re) IN Chain(A, e, e, e, NS)
Log(A, NS) == LET r == FDiv(FOne, A.re) IN Chain(A, FLog(A.re), r, FNeg(FMul(r, r)), NS)
Pow(A, p, NS) == Chain(A, FPow(A.re, p), FMul(p, FPow(A.re, FSub(p, FOne))),
                       FMul(FMul(p, FSub(p, FOne)), FPow(A.re, FSub(p, FTwo))), NS)
NormCdf(A, NS) == LET f == FNormPdf(A.re) IN Chain(A, FNormCdf(A.re), f, FNeg(FMul(A.re, f)), NS)
\* y = Phi^-1(x):  y' = 1/phi(y),  y'' = y / phi(y)^2
InvNormCdf(A, NS) == LET y == FInvNormCdf(A.re) f == FNormPdf(y) IN
                     Chain(A, y, FDiv(FOne, f), FDiv(y, FMul(f, f)), NS)
Abs(A, NS) == IF FLt(FZ, A.re) THEN Ident(A, NS) ELSE Neg(A, NS)
\* a % b = a - trunc(a / b) * b ; the truncated quotient is locally constant
Rem(A, B, NS) == Lin(FOne, A, FNeg(FTrunc(FDiv(A.re, B.re))), B, NS)

\* ---- domains (an event outside is skipped, never judged) ------------------------------------
Small == FOfRat(1, 20)            \* 0.05
Tiny  == FOfRat(1, 100)
Big   == FOfInt(1000000)
AllComponents(x) == <<x.re>> \o (IF x.k = "F" THEN <<>> ELSE x.d)
                    \o (IF x.k = "D2" THEN [i \in 1..(Len(x.raw2) * Len(x.raw2)) |-> x.raw2[((i - 1) \div Len(x.raw2)) + 1][((i - 1) % Len(x.raw2)) + 1]] ELSE <<>>)
TameBy(x, bound) == \A i \in 1..Len(AllComponents(x)) : FIsFinite(AllComponents(x)[i]) /\ FLt(FAbs(AllComponents(x)[i]), bound)
Tame(x) == TameBy(x, Big)
\* for comparisons, which look at values only and are defined by IEEE arithmetic for NaN too (every ordering false, != true)
\* (and for the infinities: inf <= inf is TRUE) - any value at all, tame derivatives
CmpTame(x) == \A i \in 2..Len(AllComponents(x)) : FIsFinite(AllComponents(x)[i]) /\ FLt(FAbs(AllComponents(x)[i]), Big)
Huge == FOfStr("1e13")

\* ---- comparing a recorded concrete number with a rule result --------------------------------
CloseTo(x, W, NS) ==
  /\ FClose(x.re, W.re, W.sre)
  /\ (x.k \in {"D1", "D2"} => \A n \in NS : FClose(G(x, n), W.g[n], W.sg[n]))
  /\ (x.k = "D2" => \A p \in NS \X NS : FClose(H(x, p[1], p[2]), W.h[p], W.sh[p]))
\* bit-for-bit agreement by name (re-indexing and read-back copy values, they do not compute)
SameByName(x, y, NS) == /\ x.re = y.re
                        /\ \A n \in NS : G(x, n) = G(y, n)
                        /\ \A p \in NS \X NS : H(x, p[1], p[2]) = H(y, p[1], p[2])
\* shape invariants of a stored number (C03 / C20)
ShapeOK(x) == CASE x.k = "F" -> TRUE
                [] x.k = "D1" -> NoDup(x.vars) /\ Len(x.d) = Len(x.vars)
                [] x.k = "D2" -> /\ NoDup(x.vars) /\ Len(x.d) = Len(x.vars) /\ Len(x.raw2) = Len(x.vars)
                                 /\ \A i \in 1..Len(x.raw2) : Len(x.raw2[i]) = Len(x.vars)
                                 /\ \A i, j \in 1..Len(x.vars) : x.d2[i][j] = FMul(FTwo, x.raw2[i][j])   \* read-back doubles the stored array
HessSymmetric(x) == x.k = "D2" => \A i, j \in 1..Len(x.vars) : FClose(x.raw2[i][j], x.raw2[j][i], FMax(FAbs(x.raw2[i][j]), FOne))
===============================================================================
