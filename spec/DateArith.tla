------------------------------- MODULE DateArith -------------------------------
(* Proleptic Gregorian calendar arithmetic on DAY NUMBERS (days since 1970-01-01). *)
(* TLC integers are 32 bit, so seconds-since-epoch (what the crate's curves use)    *)
(* would overflow after 2038; the harness divides time stamps by 86 400.            *)
(* Weekdays: Monday = 0 .. Sunday = 6 (chrono's num_days_from_monday, and the       *)
(* encoding of the crate's week masks).                                             *)
EXTENDS Integers

Weekday(d) == (d + 3) % 7                      \* 1970-01-01 was a Thursday (= 3)
IsLeap(y) == (y % 4 = 0 /\ y % 100 # 0) \/ y % 400 = 0
DaysInMonth(y, m) == IF m = 2 THEN (IF IsLeap(y) THEN 29 ELSE 28)
                     ELSE IF m \in {4, 6, 9, 11} THEN 30 ELSE 31

\* days-from-civil / civil-from-days; every division is on non-negative operands
\* for years >= 1, so TLA+ floor division and truncating division coincide here.
DaysFromCivil(y, m, d) ==
  LET yy  == IF m <= 2 THEN y - 1 ELSE y
      era == yy \div 400
      yoe == yy - era * 400
      mp  == (m + 9) % 12
      doy == (153 * mp + 2) \div 5 + d - 1
      doe == yoe * 365 + yoe \div 4 - yoe \div 100 + doy
  IN era * 146097 + doe - 719468

CivilFromDays(z0) ==
  LET z   == z0 + 719468
      era == z \div 146097
      doe == z - era * 146097
      yoe == (doe - doe \div 1460 + doe \div 36524 - doe \div 146096) \div 365
      doy == doe - (365 * yoe + yoe \div 4 - yoe \div 100)
      mp  == (5 * doy + 2) \div 153
      d   == doy - (153 * mp + 2) \div 5 + 1
      m   == IF mp < 10 THEN mp + 3 ELSE mp - 9
      y   == yoe + era * 400 + (IF m <= 2 THEN 1 ELSE 0)
  IN <<y, m, d>>

Year(d)  == CivilFromDays(d)[1]
Month(d) == CivilFromDays(d)[2]
Dom(d)   == CivilFromDays(d)[3]
YM(d)    == LET c == CivilFromDays(d) IN <<c[1], c[2]>>

FirstOfMonth(y, m) == DaysFromCivil(y, m, 1)
LastOfMonth(y, m)  == DaysFromCivil(y, m, DaysInMonth(y, m))

\* n-th (1-based) weekday wd of month m in year y
NthWeekday(y, m, wd, n) ==
  LET f == FirstOfMonth(y, m) IN f + ((wd - Weekday(f)) % 7) + 7 * (n - 1)
\* last weekday wd on or before day number x
LastWeekdayOnOrBefore(x, wd) == x - ((Weekday(x) - wd) % 7)
\* first weekday wd on or after x
FirstWeekdayOnOrAfter(x, wd) == x + ((wd - Weekday(x)) % 7)

\* Easter Sunday, anonymous Gregorian algorithm (Meeus/Jones/Butcher)
Easter(y) ==
  LET a == y % 19
      b == y \div 100
      c == y % 100
      d == b \div 4
      e == b % 4
      f == (b + 8) \div 25
      g == (b - f + 1) \div 3
      h == (19 * a + b - d - g + 15) % 30
      i == c \div 4
      k == c % 4
      l == (32 + 2 * e + 2 * i - h - k) % 7
      mm == (a + 11 * h + 22 * l) \div 451
      month == (h + l - 7 * mm + 114) \div 31
      day == ((h + l - 7 * mm + 114) % 31) + 1
  IN DaysFromCivil(y, month, day)

\* the supported range of the crate's calendars
RangeLo == DaysFromCivil(1970, 1, 1)      \* = 0
RangeHi == DaysFromCivil(2200, 12, 31)    \* = 84370

\* ---- self checks (evaluated by MC_DateArith) -------------------------------------
RoundTrip(d) == LET c == CivilFromDays(d) IN DaysFromCivil(c[1], c[2], c[3]) = d
               /\ c[2] \in 1..12 /\ c[3] \in 1..DaysInMonth(c[1], c[2])
Monotone(d) == LET a == CivilFromDays(d) b == CivilFromDays(d + 1) IN
   \/ (b[1] = a[1] /\ b[2] = a[2] /\ b[3] = a[3] + 1)
   \/ (b[1] = a[1] /\ b[2] = a[2] + 1 /\ b[3] = 1 /\ a[3] = DaysInMonth(a[1], a[2]))
   \/ (b[1] = a[1] + 1 /\ b[2] = 1 /\ a[2] = 12 /\ b[3] = 1 /\ a[3] = 31)
KnownDates == /\ DaysFromCivil(1970, 1, 1) = 0 /\ Weekday(0) = 3
              /\ DaysFromCivil(2000, 3, 1) = 11017 /\ Weekday(11017) = 2      \* Wednesday
              /\ DaysFromCivil(2024, 2, 29) = 19782 /\ Weekday(19782) = 3     \* Thursday
              /\ DaysFromCivil(2200, 12, 31) = 84370 /\ Weekday(84370) = 2    \* Wednesday
              /\ Easter(2024) = DaysFromCivil(2024, 3, 31)
              /\ Easter(2000) = DaysFromCivil(2000, 4, 23)
              /\ Easter(1970) = DaysFromCivil(1970, 3, 29)
              /\ Easter(2038) = DaysFromCivil(2038, 4, 25)
              /\ Easter(2200) = DaysFromCivil(2200, 4, 6)
              /\ Easter(1981) = DaysFromCivil(1981, 4, 19)
===============================================================================
