import tlc2.value.impl.*;

/**
 * TLC module override for module FP (spec/FP.tla): IEEE-754 binary64 arithmetic.
 * A double is carried in TLA+ as the tuple <<hi32, lo32>> of its bit pattern, so that it
 * fingerprints, prints and round-trips through JSON exactly.
 * Only arithmetic primitives live here; every rule that decides a property is TLA+.
 */
public class FP {
  static double d(Value v) {
    TupleValue t = (TupleValue) v.toTuple();
    long hi = ((IntValue) t.elems[0]).val;
    long lo = ((IntValue) t.elems[1]).val;
    return Double.longBitsToDouble((hi << 32) | (lo & 0xffffffffL));
  }
  static Value v(double x) {
    long b = Double.doubleToRawLongBits(x);
    return new TupleValue(IntValue.gen((int) (b >> 32)), IntValue.gen((int) b));
  }
  static Value b(boolean x) { return x ? BoolValue.ValTrue : BoolValue.ValFalse; }
  static int i(Value n) { return ((IntValue) n).val; }

  public static Value FOfInt(Value n) { return v(i(n)); }
  public static Value FOfRat(Value n, Value m) { return v(((double) i(n)) / i(m)); }
  public static Value FOfStr(Value s) { return v(Double.parseDouble(((StringValue) s).val.toString())); }
  public static Value FAdd(Value a, Value c) { return v(d(a) + d(c)); }
  public static Value FSub(Value a, Value c) { return v(d(a) - d(c)); }
  public static Value FMul(Value a, Value c) { return v(d(a) * d(c)); }
  public static Value FDiv(Value a, Value c) { return v(d(a) / d(c)); }
  public static Value FFma(Value a, Value c, Value e) { return v(Math.fma(d(a), d(c), d(e))); }
  public static Value FNeg(Value a) { return v(-d(a)); }
  public static Value FAbs(Value a) { return v(Math.abs(d(a))); }
  public static Value FPow(Value a, Value c) { return v(Math.pow(d(a), d(c))); }
  public static Value FExp(Value a) { return v(Math.exp(d(a))); }
  public static Value FLog(Value a) { return v(Math.log(d(a))); }
  public static Value FSqrt(Value a) { return v(Math.sqrt(d(a))); }
  public static Value FTrunc(Value a) { double x = d(a); return v(x < 0 ? Math.ceil(x) : Math.floor(x)); }
  public static Value FMax(Value a, Value c) { return v(Math.max(d(a), d(c))); }
  public static Value FLt(Value a, Value c) { return b(d(a) < d(c)); }
  public static Value FLe(Value a, Value c) { return b(d(a) <= d(c)); }
  public static Value FEq(Value a, Value c) { return b(d(a) == d(c)); }
  public static Value FIsFinite(Value a) { double x = d(a); return b(!Double.isNaN(x) && !Double.isInfinite(x)); }
  public static Value FIsNaN(Value a) { return b(Double.isNaN(d(a))); }
  /** |a-b| <= 1e-9*scale + 1e-12 ; the default tolerance of DESIGN 2.2 */
  public static Value FClose(Value a, Value c, Value s) {
    double x = d(a), y = d(c), sc = Math.abs(d(s));
    if (x == y) return BoolValue.ValTrue;
    return b(Math.abs(x - y) <= 1e-9 * sc + 1e-12);
  }
  /** |a-b| <= rel*max(|a|,|b|,1) */
  public static Value FCloseTol(Value a, Value c, Value rel) {
    double x = d(a), y = d(c), r = d(rel);
    if (x == y) return BoolValue.ValTrue;
    return b(Math.abs(x - y) <= r * Math.max(1.0, Math.max(Math.abs(x), Math.abs(y))));
  }
  /** pure relative agreement: |a-b| <= rel*max(|a|,|b|) (no absolute floor), or equal */
  public static Value FRelClose(Value a, Value c, Value rel) {
    double x = d(a), y = d(c), r = d(rel);
    if (x == y) return BoolValue.ValTrue;
    return b(Math.abs(x - y) <= r * Math.max(Math.abs(x), Math.abs(y)));
  }
  public static Value FStr(Value a) { return new StringValue(Double.toString(d(a))); }
  /** integer value of a double that holds an exact 32-bit integer */
  public static Value FToInt(Value a) { return IntValue.gen((int) d(a)); }

  // ---- standard normal, implemented independently of statrs --------------------------------
  static final double SQRT2PI = Math.sqrt(2.0 * Math.PI);
  static double pdf(double x) { return Math.exp(-0.5 * x * x) / SQRT2PI; }
  /** Phi(x): Marsaglia's Taylor series around 0 for |x| <= 6.5, continued fraction for the tails. */
  static double cdf(double x) {
    if (Double.isNaN(x)) return x;
    if (x < 0) return tail(-x);
    return cdfPos(x);
  }
  /** upper tail Q(a) = 1 - Phi(a), a >= 0, relatively accurate (no cancellation) */
  static double tail(double a) {
    if (a < 1.0) return 1.0 - cdfPos(a);       // Q >= 0.158: subtraction is harmless here
    double t = 0.0;
    for (int k = 400; k >= 1; k--) t = k / (a + t);
    return pdf(a) / (a + t);
  }
  static double cdfPos(double x) { // x >= 0
    if (x > 6.5) return 1.0 - tail(x);
    double s = x, term = x, q = x * x;
    for (int n = 1; n < 400; n++) {
      term = term * q / (2 * n + 1);
      s += term;
      if (Math.abs(term) < 1e-18 * Math.abs(s)) break;
    }
    return 0.5 + s * pdf(x);
  }
  /** lower-tail-accurate Phi for x<0 (used by the inverse) */
  static double cdfAcc(double x) { return cdf(x); }
  static double inv(double p) {
    if (!(p > 0.0 && p < 1.0)) { if (p == 0.0) return Double.NEGATIVE_INFINITY; if (p == 1.0) return Double.POSITIVE_INFINITY; return Double.NaN; }
    if (p > 0.5) return -inv(1.0 - p);
    double lo = -40.0, hi = 0.0;
    for (int k = 0; k < 200; k++) { double m = 0.5 * (lo + hi); if (cdfAcc(m) < p) lo = m; else hi = m; }
    double z = 0.5 * (lo + hi);
    for (int k = 0; k < 3; k++) { double f = cdfAcc(z) - p; double dz = f / pdf(z); if (Double.isNaN(dz) || Double.isInfinite(dz)) break; z -= dz; }
    return z;
  }
  public static Value FNormCdf(Value a) { return v(cdf(d(a))); }
  public static Value FNormPdf(Value a) { return v(pdf(d(a))); }
  public static Value FInvNormCdf(Value a) { return v(inv(d(a))); }
}
