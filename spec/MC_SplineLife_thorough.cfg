SPECIFICATION Spec
CONSTANT MaxOps = 5
INVARIANT LastWins
INVARIANT EvalNeedsSolve
PROPERTY Inert
CHECK_DEADLOCK FALSE
