INIT Init
NEXT Next
INVARIANT Accepted
ALIAS Alias
CHECK_DEADLOCK TRUE
