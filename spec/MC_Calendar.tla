------------------------------ MODULE MC_Calendar ------------------------------
(* Model of the day-stepping loops of DateRoll as a state machine: one action per   *)
(* loop iteration of roll_forward/backward_bus_day, roll_*_settled_bus_day, the     *)
(* month test of the modified rules and the counter loop of add_bus_days.           *)
(* Initial states = every calendar of a small family (all holiday subsets of a      *)
(* window straddling a month end, all settlement-holiday subsets of a sub-window,   *)
(* several week masks) x every query.  Invariants: the loop invariants ("every day  *)
(* passed so far is ineligible", "cnt business days counted") and, on termination,  *)
(* agreement with BOTH the recursive transcription (Alg) and the declarative rule.  *)
EXTENDS Calendar, TLC, SequencesExt

CONSTANTS W0,      \* first day of the business-holiday window
          WLen,    \* its length
          SOff, SLen,  \* settlement-holiday window = W0+SOff .. W0+SOff+SLen-1
          Masks,   \* set of week masks (sets of non-working weekdays, Mon = 0)
          Margin,  \* days of plain calendar either side
          NMax     \* business-day counts -NMax..NMax

Win  == W0..(W0 + WLen - 1)
SWin == (W0 + SOff)..(W0 + SOff + SLen - 1)
Lo == W0 - Margin
Hi == W0 + WLen - 1 + Margin
QDates == (W0 - 2)..(W0 + WLen + 1)

VARIABLES bh, sh, mask,      \* the calendar
          q,                 \* the query being executed
          pc, cur, dir, rev, cnt
vars == <<bh, sh, mask, q, pc, cur, dir, rev, cnt>>

C == [lo |-> Lo, hi |-> Hi,
      bus |-> {d \in Lo..Hi : Weekday(d) \notin mask /\ d \notin bh},
      stl |-> {d \in Lo..Hi : Weekday(d) \notin mask /\ d \notin sh}]

RollQ == [f : {"roll"}, d : QDates, m : Mods, s : BOOLEAN]
AddQ  == [f : {"add"},  d : QDates, n : (-NMax)..NMax, s : BOOLEAN]

Init == /\ bh \in SUBSET Win /\ sh \in SUBSET SWin /\ mask \in Masks
        /\ q \in RollQ \cup AddQ
        /\ pc = "start" /\ cur = q.d /\ dir = 0 /\ rev = FALSE /\ cnt = 0

\* ---- roll(date, modifier, settlement) ------------------------------------------
RollStart == /\ pc = "start" /\ q.f = "roll"
             /\ IF q.m = "Act" THEN pc' = "done" /\ dir' = 0
                ELSE /\ pc' = "seek" /\ dir' = (IF q.m \in {"F", "ModF"} THEN 1 ELSE -1)
             /\ UNCHANGED <<cur, rev, cnt>>
\* one iteration of `while !is_bus_day` or of the outer `while !is_settlement`
SeekStep == /\ pc = "seek"
            /\ IF ~Bus(C, cur) \/ (q.s /\ ~Stl(C, cur))
               THEN cur' = cur + dir /\ pc' = "seek"
               ELSE cur' = cur /\ pc' = (IF q.f = "roll" THEN "landed" ELSE "done")
            /\ UNCHANGED <<dir, rev, cnt>>
\* modified rules: month test and reversal from the ORIGINAL date
Landed == /\ pc = "landed"
          /\ IF q.m \in {"ModF", "ModP"} /\ ~rev /\ Month(cur) # Month(q.d)
             THEN cur' = q.d /\ dir' = -dir /\ rev' = TRUE /\ pc' = "seek"
             ELSE pc' = "done" /\ UNCHANGED <<cur, dir, rev>>
          /\ UNCHANGED cnt

\* ---- add_bus_days(date, days, settlement) --------------------------------------
AddStart == /\ pc = "start" /\ q.f = "add"
            /\ IF ~Bus(C, q.d) THEN pc' = "err" /\ dir' = 0
               ELSE /\ dir' = (IF q.n < 0 THEN -1 ELSE 1) /\ pc' = "count"
            /\ UNCHANGED <<cur, rev, cnt>>
\* loop head: while counter < days { new_date = roll(new_date + 1); counter += 1 }
CountHead == /\ pc = "count"
             /\ IF cnt = q.n THEN pc' = (IF q.s THEN "seek" ELSE "done") /\ cur' = cur
                ELSE pc' = "inner" /\ cur' = cur + dir
             /\ UNCHANGED <<dir, rev, cnt>>
\* the inner roll_forward/backward_bus_day
Inner == /\ pc = "inner"
         /\ IF Bus(C, cur) THEN pc' = "count" /\ cnt' = cnt + dir /\ cur' = cur
            ELSE cur' = cur + dir /\ UNCHANGED <<pc, cnt>>
         /\ UNCHANGED <<dir, rev>>

Next == \/ (RollStart \/ SeekStep \/ Landed \/ AddStart \/ CountHead \/ Inner) /\ UNCHANGED <<bh, sh, mask, q>>
Spec == Init /\ [][Next]_vars /\ WF_vars(Next)

\* ---- invariants -----------------------------------------------------------------
InWindow == Lo + 1 <= cur /\ cur <= Hi - 1                \* the margins are wide enough
Between(a, b) == IF a <= b THEN a..b ELSE b..a
\* every day strictly passed while seeking is ineligible
SeekInv == pc = "seek" /\ q.f = "roll" =>
             \A y \in Between(q.d, cur) \ {cur} : ~Elig(C, y, q.s)
\* between iterations exactly |cnt| business days lie in (start, cur]
CountInv == pc = "count" => /\ Bus(C, cur)
                            /\ Cardinality({y \in Between(q.d, cur) \ {q.d} : Bus(C, y)}) = Abs(cnt)
RollDone == pc = "done" /\ q.f = "roll" =>
              /\ cur = RollAlg(C, q.d, q.m, q.s)
              /\ cur = RollDecl(C, q.d, q.m, q.s)
              /\ (q.m # "Act" => Elig(C, cur, q.s))
              /\ (Elig(C, q.d, q.s) => cur = q.d)
              /\ RollDecl(C, cur, q.m, q.s) = cur              \* adjusting twice = once
AddDone == pc = "done" /\ q.f = "add" =>
              /\ cur = AddBusDaysAlg(C, q.d, q.n, q.s)
              /\ cur = AddBusDaysDecl(C, q.d, q.n, q.s)
              /\ (~q.s => AddBusDaysDecl(C, cur, -q.n, FALSE) = q.d)   \* inverse law
AddErr == pc = "err" <=> (q.f = "add" /\ ~Bus(C, q.d) /\ pc # "start")
ErrAgree == pc = "err" => AddBusDaysDecl(C, q.d, q.n, q.s) = Err /\ AddBusDaysAlg(C, q.d, q.n, q.s) = Err
\* whole-calendar consistency of the derived operations (evaluated once per calendar, at start)
DerivedAgree == pc = "start" /\ q.f = "roll" /\ q.m = "Act" /\ ~q.s /\ q.d = W0 =>
   /\ \A d \in QDates, n \in (-NMax)..NMax, s \in BOOLEAN :
          LagAlg(C, d, n, s) \in LagDeclSet(C, d, n, s)
   /\ \A d \in QDates, n \in 1..NMax :
          /\ NthBusAfter(C, d, n) = NthBusAfterCard(C, d, n)
          /\ NthBusBefore(C, d, n) = NthBusBeforeCard(C, d, n)
   /\ \A a, b \in QDates : BusDateRangeAlg(C, a, b) = BusDateRangeDecl(C, a, b)
   /\ \A d \in QDates, n \in {-3, -1, 0, 2}, m \in Mods, s \in BOOLEAN :
          AddDaysAlg(C, d, n, m, s) = AddDaysDecl(C, d, n, m, s)
Terminates == <>(pc \in {"done", "err"})

\* ---- case generation (G): the calendars of Init, for replay into the real crate ----------
RECURSIVE SetSeq(_)
SetSeq(S) == IF S = {} THEN <<>> ELSE LET m == Min(S) IN <<m>> \o SetSeq(S \ {m})
CaseSeq == SetToSeq({[bh |-> SetSeq(b), sh |-> SetSeq(s), mask |-> SetSeq(m),
                      lo |-> Lo, hi |-> Hi, q0 |-> W0 - 2, q1 |-> W0 + WLen + 1, nmax |-> NMax]
                        : b \in SUBSET Win, s \in SUBSET SWin, m \in Masks})
===============================================================================
