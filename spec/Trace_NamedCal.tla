----------------------------- MODULE Trace_NamedCal -----------------------------
(* (V) for C06 / C07: recorded behaviour of the built-in tables, the name grammar,  *)
(* explicit unions and behavioural equality, judged against NamedCal.tla.           *)
(* Observation-set idiom: one initial state per recorded event; invariant Accepted. *)
(* (The shipped fixing histories are validated as histories by Trace_Fixings.)      *)
EXTENDS NamedCal, Json, IOUtils, TLC

Rec     == ndJsonDeserialize(IOEnv.TRACE)
Members == ndJsonDeserialize(IOEnv.MEMBERS)     \* projections of the individually built member calendars
Prop    == IOEnv.PROP

P2 == <<1, 2, 4, 8, 16, 32, 64, 128, 256, 512, 1024, 2048, 4096, 8192, 16384, 32768, 65536, 131072, 262144,
        524288, 1048576, 2097152, 4194304, 8388608, 16777216, 33554432, 67108864, 134217728, 268435456, 536870912>>
Bit(w, b) == (w \div P2[b + 1]) % 2 = 1
BitsToSet(words, w0, n) == {w0 + j : j \in {k \in 0..(n - 1) : Bit(words[(k \div 30) + 1], k % 30)}}
SeqToSet(s) == {s[i] : i \in 1..Len(s)}

MemberBus(name, win) == LET m == CHOOSE k \in 1..Len(Members) : Members[k].name = name /\ Members[k].win = win
                        IN BitsToSet(Members[m].bus, Members[m].w0, Members[m].n)
WinRange(win) == LET m == CHOOSE k \in 1..Len(Members) : Members[k].win = win IN Members[m].w0..(Members[m].w0 + Members[m].n - 1)
RECURSIVE InterAll(_, _)
InterAll(sets, acc) == IF sets = <<>> THEN acc ELSE InterAll(Tail(sets), acc \cap Head(sets))

\* ---- C07 ------------------------------------------------------------------------
YearOK(e) ==
  IF e.name \in FullRuleNames THEN
       /\ SeqToSet(e.hol) = WeekdayHolidays(e.name, e.y)            \* holiday exactly when the rules say so
       /\ SeqToSet(e.nonbus) = WeekdayHolidays(e.name, e.y)         \* ... and business otherwise
       /\ e.weekend_bus_count = 0
  \* ('all' and 'bus' have no holidays: on no day of the week)
  ELSE IF e.name = "bus" THEN e.hol = <<>> /\ e.nonbus = <<>> /\ e.weekend_bus_count = 0 /\ e.weekend_hol_count = 0
  ELSE IF e.name = "all" THEN e.hol = <<>> /\ e.nonbus = <<>> /\ e.weekend_bus_count = e.weekend_days /\ e.weekend_hol_count = 0
  ELSE /\ WeekdayOneSided(e.name, e.y) \subseteq SeqToSet(e.hol)     \* one-sided: documented holidays are holidays
       /\ e.weekend_bus_count = 0
ResolveOK(e) == /\ e.o = "ok"
                /\ ("py_o" \in DOMAIN e => e.py_o = "ok" /\ e.py_diff_n = 0)      \* Python's get_named_calendar hands out the same calendar
                \* (the same calendar through its name: same business days, every day settles, and the same answer to
                \*  "is this day a holiday" on every day of 1970-2200 - through the named calendar and the generic container)
                /\ (e.via = "NamedCal" => e.bus = e.ref /\ e.stl_all /\ e.hol_diff_n = 0)

\* ---- C06 ------------------------------------------------------------------------
NameOK(e) ==
  LET p == ParseDecl(e.toks) IN
  IF ~p.ok THEN e.o = "err"
  ELSE /\ e.o = "ok"
       /\ ("pyu_same" \in DOMAIN e => e.pyu_same)          \* Python's `union_cal` attribute is the same combination
       /\ LET rng == WinRange(e.win)
              w0 == CHOOSE x \in rng : \A z \in rng : x <= z
              n == Cardinality(rng)
          IN /\ BitsToSet(e.bus, w0, n) = InterAll([i \in 1..Len(p.cals) |-> MemberBus(p.cals[i], e.win)], rng)
             /\ BitsToSet(e.stl, w0, n) = (IF p.has_settle
                                           THEN InterAll([i \in 1..Len(p.settle) |-> MemberBus(p.settle[i], e.win)], rng)
                                           ELSE rng)
UnionOK(e) ==
  LET rng == e.w0..(e.w0 + e.n - 1) IN
  /\ ("nonbus" \in DOMAIN e => BitsToSet(e.nonbus, e.w0, e.n) = rng \ BitsToSet(e.bus, e.w0, e.n))      \* a non-business day is a day that is not a business day
  /\ BitsToSet(e.bus, e.w0, e.n) = InterAll([i \in 1..Len(e.members) |-> BitsToSet(e.members[i], e.w0, e.n)], rng)
  /\ BitsToSet(e.stl, e.w0, e.n) = (IF e.has_settle THEN InterAll([i \in 1..Len(e.settle) |-> BitsToSet(e.settle[i], e.w0, e.n)], rng) ELSE rng)
\* equal exactly when the two objects agree on every business and settlement day of 1970-2200
EqOK(e) == LET want == (e.diff_bus_n = 0 /\ e.diff_stl_n = 0) IN
           \A k \in 1..Len(e.res) : e.res[k].o = "ok" /\ e.res[k].eq = want

EventOK(e) == CASE e.op = "year" -> YearOK(e)
                [] e.op = "resolve" -> ResolveOK(e)
                [] e.op = "name" -> NameOK(e)
                [] e.op = "union" -> UnionOK(e)
                [] e.op = "eq" -> EqOK(e)

VARIABLES i, ok
vars == <<i, ok>>
Init == i \in 1..Len(Rec) /\ ok = EventOK(Rec[i])
Next == UNCHANGED vars
Accepted == ok
===============================================================================
