----------------------------- MODULE AddMonthsInt -----------------------------
(* The year / month carry arithmetic of DateRoll::add_months for EVERY start month  *)
(* and EVERY integer month offset, discharged symbolically by Apalache (the TLC      *)
(* model MC_Months enumerates offsets -1300..1300; this removes the bound).          *)
(* Alg: years by truncating division, remainder, the <= 0 / >= 13 / == 0 branches,   *)
(* exactly as coded.  Decl: total-months arithmetic with floor division.             *)
EXTENDS Integers

VARIABLES
  \* @type: Int;
  m,
  \* @type: Int;
  off

\* Rust's `/` on i32 truncates toward zero; here for a positive divisor
\* @type: (Int, Int) => Int;
TruncDiv(a, b) == IF a >= 0 THEN a \div b ELSE -((-a) \div b)
\* @type: Int => Int;
Signum(a) == IF a > 0 THEN 1 ELSE IF a < 0 THEN -1 ELSE 0
\* @type: Int => Int;
Abs(a) == IF a < 0 THEN -a ELSE a

YrRoll0 == TruncDiv(Abs(off), 12) * Signum(off)
Rem == off - YrRoll0 * 12
NewMonth0 == m + Rem
YrRollAlg == IF NewMonth0 <= 0 THEN YrRoll0 - 1 ELSE IF NewMonth0 >= 13 THEN YrRoll0 + 1 ELSE YrRoll0
NewMonth1 == IF NewMonth0 <= 0 \/ NewMonth0 >= 13 THEN NewMonth0 % 12 ELSE NewMonth0
NewMonthAlg == IF NewMonth1 = 0 THEN 12 ELSE NewMonth1

\* declaratively: months are counted from year 0: total = 12*y + (m-1) + off ; the year offset is independent of y
Tot == (m - 1) + off
YrRollDecl == Tot \div 12
NewMonthDecl == (Tot % 12) + 1

Init == m \in 1..12 /\ off \in Int
Next == UNCHANGED <<m, off>>
Agree == YrRollAlg = YrRollDecl /\ NewMonthAlg = NewMonthDecl /\ NewMonthAlg \in 1..12
===============================================================================
