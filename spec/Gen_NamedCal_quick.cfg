CONSTANTS
  Alphabet = {"tgt", "ldn", "fed", "xyz", ",", "|"}
  MaxLen = 5
INIT GInit
NEXT GNext
CHECK_DEADLOCK FALSE
