------------------------------- MODULE Trace_NumVM -------------------------------
(* (V) for C01, C02, C03, C17, C18, C19: recorded executions of NumVM programs on     *)
(* the real crate, judged instruction by instruction by NumVM.tla.                   *)
(* One initial state per program; `bad` = the leaves / steps the specification      *)
(* rejects; `skipped` = steps outside the differentiable or tame domain.             *)
(* IOEnv.PROP selects which instructions a property owns (everything else is still   *)
(* executed, but not judged under that property).                                    *)
EXTENDS PyNum, Json, IOUtils, TLC
Progs == ndJsonDeserialize(IOEnv.TRACE)
Prop == IOEnv.PROP
Arith == {"add", "sub", "mul", "div", "neg", "pow", "exp", "log", "ncdf", "incdf", "abs"}
RankOfStep(P, s) == LET ins == P.steps[s].ins
                        a == IF Has(ins, "a") THEN Reg(P, ins.a) ELSE [k |-> "none"]
                        b == IF Has(ins, "b") THEN Reg(P, ins.b) ELSE [k |-> "none"]
                        ra == IF a.k \in {"F", "D1", "D2"} THEN Rank(a.k) ELSE 0
                        rb == IF b.k \in {"F", "D1", "D2"} THEN Rank(b.k) ELSE 0
                    IN MaxI(ra, rb)
AnyWrapped(P, s) == LET ins == P.steps[s].ins IN
                    (Has(ins, "a") /\ Wrapped(Reg(P, ins.a))) \/ (Has(ins, "b") /\ Wrapped(Reg(P, ins.b)))
\* (the tagging of the leaves is part of C01 / C02's quantifier: the Python-facing constructors belong to them as well)
PyArith(P, s) == P.steps[s].ins.op = "py" /\ P.steps[s].ins.name \in (DOMAIN PyCore) \cup (DOMAIN PyUn) \cup {"__pow__", "vars_from"}
Owned(P, s) ==
  LET op == P.steps[s].ins.op IN
  \* C01 / C02 observe derivatives through gradient1 / gradient2, so those read-backs belong to them as well
  \* (the Python-facing arithmetic methods are the same operators as a Python user reaches them: C01 / C02 own them too)
  CASE Prop = "C01" -> (op \in Arith \cup {"gradient1"} \/ PyArith(P, s)) /\ RankOfStep(P, s) <= 1     \* bare numbers and numbers inside the generic container
    \* (every route down from second order is C02's: Dual::from(Dual2) and the set_order / set_order_clone arms of the container)
    [] Prop = "C02" -> (op \in Arith \cup {"to_d1", "set_order", "set_order_clone", "gradient1", "gradient2", "manifold"} \/ PyArith(P, s)) /\ (RankOfStep(P, s) = 2 \/ op \in {"gradient2", "manifold"})
    [] Prop = "C03" -> (op \in {"add", "sub", "mul", "div", "rem", "eq", "ne", "to_new_vars", "union_l", "union_r", "ptr_eq", "vars_cmp"} /\ ~AnyWrapped(P, s))
                       \/ (op = "py" /\ P.steps[s].ins.name \in {"__eq__", "__add__", "__radd__", "__sub__", "__mul__", "__rmul__", "__truediv__", "__rsub__", "__rtruediv__", "__pow__"})   \* the same operations as Python reaches them
    [] Prop = "C17" -> op \in {"gradient1", "gradient2", "manifold", "mul", "add", "sub", "union_l", "union_r", "to_new_vars"}      \* (re-alignment is judged by reading the result back by name)
                       \/ (op = "py" /\ P.steps[s].ins.name \in {"grad1_manifold", "vars_from", "ptr_eq", "vars"})  \* the read-backs as Python reaches them
    [] Prop = "C18" -> op \in {"wrap", "unwrap", "to_n", "to_f64", "to_d1", "to_d2", "set_order", "set_order_clone", "py"} \/ AnyWrapped(P, s)
    [] Prop = "C19" -> op \in {"lt", "le", "gt", "ge", "eq", "ne", "abs", "rem", "sum", "zero", "one", "add", "mul", "signum", "is_positive", "is_negative", "is_zero", "abs_sub"}
                       \/ (op = "py" /\ P.steps[s].ins.name \in (DOMAIN PyCmp) \cup {"__abs__"})      \* the comparisons as Python reaches them
    [] OTHER -> TRUE
LeafOwned == Prop \in {"C03", "C17", "C18", "C20", "ALL"}
BadLeaves(P) == IF LeafOwned THEN {i \in 1..Len(P.leaves) : LeafVerdict(P, i) = "bad"} ELSE {}
TwinOwned == Prop \in {"C18", "ALL"}
BadSteps(P) == {s \in 1..Len(P.steps) : Owned(P, s) /\ (AnyVerdict(P, s) = "bad" \/ (TwinOwned /\ AnyWrapped(P, s) /\ P.steps[s].ins.op # "py" /\ TwinVerdict(P, s) = "bad"))}
Skipped(P) == Cardinality({s \in 1..Len(P.steps) : Owned(P, s) /\ AnyVerdict(P, s) = "skip"})
Judged(P) == Cardinality({s \in 1..Len(P.steps) : Owned(P, s) /\ AnyVerdict(P, s) = "ok"})
VARIABLES i, badl, bads, skipped, judged
vars == <<i, badl, bads, skipped, judged>>
ASSUME TLCSet(1, 0) /\ TLCSet(2, 0)
Init == /\ i \in 1..Len(Progs)
        /\ badl = BadLeaves(Progs[i]) /\ bads = BadSteps(Progs[i])
        /\ skipped = Skipped(Progs[i]) /\ judged = Judged(Progs[i])
        /\ TLCSet(1, TLCGet(1) + judged) /\ TLCSet(2, TLCGet(2) + skipped)       \* running totals (single worker)
Next == UNCHANGED vars
Accepted == badl = {} /\ bads = {}
\* totals, printed once per run for the evidence file
Post == PrintT(<<"STATS", Len(Progs), TLCGet(1), TLCGet(2)>>)
===============================================================================
