CONSTANTS
  N = 3
  Entries <- E3q
  RHS <- R3
INIT GInit
NEXT GNext
CHECK_DEADLOCK FALSE
