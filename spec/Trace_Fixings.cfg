INIT Init
NEXT Next
INVARIANTS Accepted Complete
CHECK_DEADLOCK FALSE
