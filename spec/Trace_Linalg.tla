------------------------------- MODULE Trace_Linalg -------------------------------
(* (V) recorded calls of the tensor-product functions judged against Linalg.tla.      *)
EXTENDS Linalg, Json, IOUtils, TLC
Rec == ndJsonDeserialize(IOEnv.TRACE)
Names(e) == UNION {NamesOf(e.A[i][j]) : i \in 1..Len(e.A), j \in 1..Len(e.A[1])} \cup UNION {NamesOf(e.B[i][j]) : i \in 1..Len(e.B), j \in 1..Len(e.B[1])}
\* operands as the call received them: a float-side operand is the matrix of real parts
Side(M, side, NS) == [i \in 1..Len(M) |-> [j \in 1..Len(M[1]) |-> IF side = "F" THEN Const(M[i][j].re, NS) ELSE Abstract(M[i][j], NS)]]
NumOK(x, W, NS, kind) == IsNum(x) /\ ShapeOK(x) /\ CloseTo(x, W, NS) /\ (x.k = "F" \/ x.k = kind)
CallOK(e, c) ==
  LET NS == Names(e) A == Side(e.A, c.l, NS) B == Side(e.B, c.r, NS)
      m == Len(A) k == Len(A[1]) n == Len(B[1])
  IN CASE c.fn \in {"dmul22_", "fdmul22_", "dfmul22_"} ->
            /\ Len(c.res) = m /\ \A i \in 1..m : Len(c.res[i]) = n
            /\ \A i \in 1..m, j \in 1..n : NumOK(c.res[i][j], Dot(Row(A, i), Col(B, j), NS), NS, e.kind)
       [] c.fn \in {"dmul21_", "fdmul21_", "dfmul21_"} ->
            /\ Len(c.res) = m /\ \A i \in 1..m : NumOK(c.res[i], Dot(Row(A, i), Col(B, 1), NS), NS, e.kind)
       [] c.fn \in {"dmul11_", "fdmul11_"} -> NumOK(c.res, Dot(Row(A, 1), Col(B, 1), NS), NS, e.kind)
       [] c.fn \in {"douter11_", "fouter11_"} ->
            /\ Len(c.res) = k /\ \A i \in 1..k : Len(c.res[i]) = n
            /\ \A i \in 1..k, j \in 1..n : NumOK(c.res[i][j], Dot(<<A[1][i]>>, <<B[1][j]>>, NS), NS, e.kind)
EventOK(e) == e.o = "ok" /\ \A q \in 1..Len(e.calls) : CallOK(e, e.calls[q])
VARIABLES i, ok
vars == <<i, ok>>
Init == i \in 1..Len(Rec) /\ ok = EventOK(Rec[i])
Next == UNCHANGED vars
Accepted == ok
===============================================================================
