------------------------------ MODULE Gen_NamedCal ------------------------------
EXTENDS MC_NamedCal, Json, IOUtils
ASSUME ndJsonSerialize(IOEnv.OUT, CaseSeq)
ASSUME PrintT(<<"GEN", Len(CaseSeq)>>)
GInit == mode = "done" /\ toks = <<>> /\ y = 0
GNext == UNCHANGED vars
===============================================================================
