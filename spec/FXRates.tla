-------------------------------- MODULE FXRates --------------------------------
(* The FX market object of rust/fx/rates/mod.rs as a state machine.                 *)
(*                                                                                  *)
(* A market is built from a sequence of quotes (ordered currency pairs).  Rates are *)
(* kept EXACT and float-free as EXPONENT VECTORS over the quote list: the cross     *)
(* i -> j is  PROD_k q_k ^ fx[i][j][k]  (product = vector sum, reciprocal = negate).*)
(* Values and sensitivities for trace validation are derived from the exponents in  *)
(* Trace_FX.                                                                        *)
(*                                                                                  *)
(* Algorithmic layer: TryNew (the validations in code order, currency index = base  *)
(* first then first appearance, seeding with quotes and reciprocals), SolveStep     *)
(* (ONE recursion level of mut_arrays_remaining_elements), Update, SetOrder.        *)
(* Each step is a function on a state record so that the same definition serves the *)
(* model's actions (st' = Step(st)) and the closure used in generation/validation.  *)
(* Declarative layer: PathVec = the signed path in the quote tree.                  *)
EXTENDS Integers, Sequences, FiniteSets

\* quotes: sequence of records [l, r] (currencies are any values, e.g. 1..N or strings)
Zero(q) == [k \in 1..q |-> 0]
Unit(q, k) == [j \in 1..q |-> IF j = k THEN 1 ELSE 0]
NegV(v) == [k \in DOMAIN v |-> -v[k]]
AddV(v, w) == [k \in DOMAIN v |-> v[k] + w[k]]
Unset == <<>>          \* an fx cell not yet populated

\* currency index: base first (if any), then first appearance in the quote list, lhs before rhs
AddU(s, c) == IF \E i \in 1..Len(s) : s[i] = c THEN s ELSE Append(s, c)
RECURSIVE IndexOf(_, _)
IndexOf(qs, acc) == IF qs = <<>> THEN acc ELSE IndexOf(Tail(qs), AddU(AddU(acc, Head(qs).l), Head(qs).r))
Pos(s, c) == CHOOSE i \in 1..Len(s) : s[i] = c
Has(s, c) == \E i \in 1..Len(s) : s[i] = c

\* seeding: quotes in list order, later quotes overwrite earlier ones (create_initial_fx_array)
RECURSIVE Seed(_, _, _, _, _)
Seed(qs, k, ix, e, f) ==
  IF k > Len(qs) THEN <<e, f>> ELSE
  LET r == Pos(ix, qs[k].l) c == Pos(ix, qs[k].r) q == Len(qs)
      e2 == [e EXCEPT ![r][c] = 1, ![c][r] = 1]
      f2 == [f EXCEPT ![r][c] = Unit(q, k), ![c][r] = NegV(Unit(q, k))]
  IN Seed(qs, k + 1, ix, e2, f2)

\* ---- state records ----------------------------------------------------------------
\* [phase, quotes, idx, edges, fx, prev]   phase: "solving" | "ready" | "err_empty" | "err_count" | "err_settle" | "err_degenerate"
ErrState(ph, qs) == [phase |-> ph, quotes |-> qs, idx |-> <<>>, edges |-> <<>>, fx |-> <<>>, prev |-> {}]

\* settle: a sequence parallel to quotes with each quote's settlement tag (0 = none)
SettleOK(settle) == \A k \in 1..Len(settle) : settle[k] = settle[1]

\* `base` below is a sequence: <<>> (no base given) or <<b>>
\* try_new: validations in code order: (1) non-empty, (2) currency count, (3) settlement consistency
Start(qs, base, settle) ==
  IF qs = <<>> THEN ErrState("err_empty", qs)
  ELSE LET ix == IndexOf(qs, base)
           n == Len(ix) q == Len(qs)
       IN IF n # q + 1 THEN ErrState("err_count", qs)
          ELSE IF ~SettleOK(settle) THEN ErrState("err_settle", qs)
          ELSE LET e0 == [i \in 1..n |-> [j \in 1..n |-> IF i = j THEN 1 ELSE 0]]
                   f0 == [i \in 1..n |-> [j \in 1..n |-> IF i = j THEN Zero(q) ELSE Unset]]
                   s == Seed(qs, 1, ix, e0, f0)
               IN [phase |-> "solving", quotes |-> qs, idx |-> ix, edges |-> s[1], fx |-> s[2], prev |-> {}]

SumAll(e, n) == LET RECURSIVE S(_, _) S(i, j) == IF i > n THEN 0 ELSE IF j > n THEN S(i + 1, 1) ELSE e[i][j] + S(i, j + 1) IN S(1, 1)
RowSum(e, i, n) == LET RECURSIVE S(_) S(j) == IF j > n THEN 0 ELSE e[i][j] + S(j + 1) IN S(1)
MaxOf(S) == CHOOSE x \in S : \A y \in S : x >= y

\* combinations(2) of the ascending neighbour list, in lexicographic order
RECURSIVE PairSeq(_)
PairSeq(S) == IF S = {} THEN <<>> ELSE
              LET m == CHOOSE x \in S : \A y \in S : (x[1] < y[1] \/ (x[1] = y[1] /\ x[2] <= y[2])) IN <<m>> \o PairSeq(S \ {m})
RECURSIVE Fill(_, _, _, _)
Fill(cs, node, e, f) ==
  IF cs = <<>> THEN <<e, f>> ELSE
  LET a == Head(cs)[1] b == Head(cs)[2]
      v == AddV(f[a][node], f[node][b])                       \* fx[a][b] = fx[a][node] * fx[node][b]
  IN Fill(Tail(cs), node, [e EXCEPT ![a][b] = 1, ![b][a] = 1], [f EXCEPT ![a][b] = v, ![b][a] = NegV(v)])

\* one recursion level of mut_arrays_remaining_elements
Step(st) ==
  LET n == Len(st.idx) IN
  IF SumAll(st.edges, n) = n * n THEN [st EXCEPT !.phase = "ready"]
  ELSE LET avail == (1..n) \ st.prev IN
    IF avail = {} THEN [st EXCEPT !.phase = "err_degenerate"]
    ELSE LET mx   == MaxOf({RowSum(st.edges, i, n) : i \in avail})
             node == MaxOf({i \in avail : RowSum(st.edges, i, n) = mx})       \* max_by_key returns the LAST maximum
             nb   == {i \in 1..n : st.edges[node][i] = 1 /\ i # node}
             combos == {c \in nb \X nb : c[1] < c[2] /\ st.edges[c[1]][c[2]] = 0}
             r == Fill(PairSeq(combos), node, st.edges, st.fx)
         IN [st EXCEPT !.edges = r[1], !.fx = r[2],
                       !.prev = IF combos = {} THEN st.prev \cup {node} ELSE {node}]
Terminal(st) == st.phase # "solving"
RECURSIVE Run(_, _)
Run(st, fuel) == IF Terminal(st) \/ fuel = 0 THEN st ELSE Run(Step(st), fuel - 1)
\* the whole construction; the bound only guards the recursion (termination is model-checked)
Build(qs, base, settle) == Run(Start(qs, base, settle), 4 * (Len(qs) + 2) * (Len(qs) + 2))

\* ---- update and derivative order ----------------------------------------------------
\* A live market: [mk (a ready state), order, settle]
\* update(qs'): refused unless every given pair is an existing pair (same orientation); each given quote replaces
\* the LAST existing quote with that pair; rebuilt through try_new with base = first currency; order becomes 1.
KnownPairs(mk, upd) == \A u \in 1..Len(upd) : \E k \in 1..Len(mk.quotes) : mk.quotes[k].l = upd[u].l /\ mk.quotes[k].r = upd[u].r
LastMatch(qs, u) == MaxOf({k \in 1..Len(qs) : qs[k].l = u.l /\ qs[k].r = u.r})
\* indices of quotes whose value is replaced (the shape, i.e. the pair list, never changes)
Replaced(mk, upd) == {LastMatch(mk.quotes, upd[u]) : u \in 1..Len(upd)}

\* ---- declarative layer ------------------------------------------------------------------
\* the undirected multigraph of quotes on index positions
EP(st, q) == <<Pos(st.idx, st.quotes[q].l), Pos(st.idx, st.quotes[q].r)>>
Adj(st, i) == {j \in 1..Len(st.idx) : \E k \in 1..Len(st.quotes) : {EP(st, k)[1], EP(st, k)[2]} = {i, j}}
RECURSIVE Reach(_, _, _)
Reach(st, S, k) == IF k = 0 THEN S ELSE Reach(st, S \cup UNION {Adj(st, i) : i \in S}, k - 1)
Connected(st) == Reach(st, {1}, Len(st.idx)) = 1..Len(st.idx)
IsTreeQ(qs, base) == LET ix == IndexOf(qs, base)
                         st == [idx |-> ix, quotes |-> qs]
                     IN qs # <<>> /\ Len(ix) = Len(qs) + 1 /\ Connected(st)
\* all simple paths i ~> j as signed quote-indicator vectors (exactly one in a tree)
RECURSIVE Paths(_, _, _, _)
Paths(st, i, j, seen) ==
  IF i = j THEN {Zero(Len(st.quotes))} ELSE
  UNION { LET e == EP(st, q) Q == Len(st.quotes) IN
          IF e[1] = i /\ e[2] \notin seen THEN {AddV(Unit(Q, q), v) : v \in Paths(st, e[2], j, seen \cup {e[2]})}
          ELSE IF e[2] = i /\ e[1] \notin seen THEN {AddV(NegV(Unit(Q, q)), v) : v \in Paths(st, e[1], j, seen \cup {e[1]})}
          ELSE {} : q \in 1..Len(st.quotes) }
PathVec(st, i, j) == CHOOSE v \in Paths(st, i, j, {i}) : TRUE
\* what a correct market must hold: complete, reciprocal, arbitrage-free, order- and base-independent
ReadyCorrect(st) == /\ IsTreeQ(st.quotes, <<st.idx[1]>>)
                    /\ \A i, j \in 1..Len(st.idx) : st.fx[i][j] = PathVec(st, i, j)
===============================================================================
