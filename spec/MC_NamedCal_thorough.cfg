CONSTANTS
  Alphabet = {"tgt", "ldn", "fed", "xyz", ",", "|"}
  MaxLen = 6
INIT Init
NEXT Next
INVARIANTS GrammarAgree GrammarShape RuleTheorems
CHECK_DEADLOCK FALSE
