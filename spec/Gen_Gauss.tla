-------------------------------- MODULE Gen_Gauss --------------------------------
EXTENDS MC_Gauss
ASSUME ndJsonSerialize(IOEnv.OUT, CaseSeq)
ASSUME PrintT(<<"GEN", Len(CaseSeq)>>)
GInit == A0 = <<>> /\ A = <<>> /\ b = <<>> /\ j = 0 /\ l = 0 /\ i = 0 /\ phase = "gen" /\ x = <<>>
GNext == UNCHANGED vars
===============================================================================
