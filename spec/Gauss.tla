---------------------------------- MODULE Gauss ----------------------------------
(* Gaussian elimination with partial pivoting and back substitution, as coded in      *)
(* dsolve21_ (rust/dual/linalg/linalg_dual.rs) and fdsolve21_ (linalg_f64.rs), on      *)
(* EXACT rationals, one action per elementary step:                                   *)
(*   Pivot(j)       k = arg max |a[r][j]| over rows r >= j, the LAST maximal row on    *)
(*                  ties (Iterator::max_by keeps the last of equal maxima)             *)
(*   Swap           rows j and k of A, entries j and k of b, together                  *)
(*   Eliminate(l)   row l -= (a[l][j]/a[j][j]) * row j, same for b                     *)
(*   BackSub(i)     x[i] = (b[i] - sum_{m>i} a[i][m] x[m]) / a[i][i], i = n..1         *)
(* Properties (MC_Gauss): for a non-singular matrix the pivot is never zero, every    *)
(* intermediate system has the same solution as the original one, and the final x is  *)
(* the exact solution (Cramer's rule).                                                *)
(* For trace validation (Trace_Gauss) the judge is the postcondition SolveObs: the     *)
(* residual A x - b (or the normal equations A^T (A x - b) in least-squares mode)      *)
(* vanishes in value, gradient and Hessian, computed with DualAlgebra.                 *)
EXTENDS Integers, Sequences, FiniteSets

\* ---- exact rationals <<n, d>>, d > 0, reduced ----------------------------------------
RECURSIVE Gcd(_, _)
Gcd(a, b) == IF b = 0 THEN a ELSE Gcd(b, a % b)
AbsI(a) == IF a < 0 THEN -a ELSE a
Norm(n, d) == IF n = 0 THEN <<0, 1>>
              ELSE LET s == IF d < 0 THEN -1 ELSE 1 g == Gcd(AbsI(n), AbsI(d)) IN <<(s * n) \div g, (s * d) \div g>>
RI(n) == <<n, 1>>
RAdd(a, b) == Norm(a[1] * b[2] + b[1] * a[2], a[2] * b[2])
RSub(a, b) == Norm(a[1] * b[2] - b[1] * a[2], a[2] * b[2])
RMul(a, b) == Norm(a[1] * b[1], a[2] * b[2])
RDiv(a, b) == Norm(a[1] * b[2], a[2] * b[1])
RIsZero(a) == a[1] = 0
RAbsLt(a, b) == AbsI(a[1]) * b[2] < AbsI(b[1]) * a[2]            \* |a| < |b|
RAbsLe(a, b) == AbsI(a[1]) * b[2] <= AbsI(b[1]) * a[2]

\* ---- algorithm steps on state records [A, b, n] ------------------------------------------
\* arg-abs-max over rows j..n of column j: the LAST row attaining the maximum
PivotRow(A, j, n) == CHOOSE k \in j..n : /\ \A r \in j..n : RAbsLe(A[r][j], A[k][j])
                                         /\ \A r \in (k + 1)..n : RAbsLt(A[r][j], A[k][j])
SwapRows(A, j, k) == [A EXCEPT ![j] = A[k], ![k] = A[j]]
SwapEls(b, j, k) == [b EXCEPT ![j] = b[k], ![k] = b[j]]
ElimRow(A, b, j, l, n) ==
  LET scl == RDiv(A[l][j], A[j][j]) IN
  <<[A EXCEPT ![l] = [m \in 1..n |-> IF m = j THEN RI(0) ELSE IF m > j THEN RSub(A[l][m], RMul(scl, A[j][m])) ELSE A[l][m]]],
    [b EXCEPT ![l] = RSub(b[l], RMul(scl, b[j]))]>>
RECURSIVE RowDot(_, _, _, _)
RowDot(row, x, m, n) == IF m > n THEN RI(0) ELSE RAdd(RMul(row[m], x[m]), RowDot(row, x, m + 1, n))
BackSubAt(A, b, x, i, n) == RDiv(RSub(b[i], RowDot(A[i], x, i + 1, n)), A[i][i])

\* ---- exact determinant and Cramer solution (n <= 3) ----------------------------------------
Det2(M) == M[1][1] * M[2][2] - M[1][2] * M[2][1]
Det3(M) == M[1][1] * (M[2][2] * M[3][3] - M[2][3] * M[3][2]) - M[1][2] * (M[2][1] * M[3][3] - M[2][3] * M[3][1])
           + M[1][3] * (M[2][1] * M[3][2] - M[2][2] * M[3][1])
Det(M, n) == IF n = 1 THEN M[1][1] ELSE IF n = 2 THEN Det2(M) ELSE Det3(M)
ReplaceCol(M, c, v, n) == [i \in 1..n |-> [j \in 1..n |-> IF j = c THEN v[i] ELSE M[i][j]]]
Cramer(M, v, n) == [c \in 1..n |-> Norm(Det(ReplaceCol(M, c, v, n), n), Det(M, n))]
===============================================================================
