------------------------------- MODULE Trace_Persist -------------------------------
(* (V) for C16 / C20: recorded save/load round trips, loads of mutated documents and   *)
(* constructor calls, judged by Persist.tla.  Observation-set idiom.                   *)
EXTENDS Persist, Json, IOUtils, TLC
Rec == ndJsonDeserialize(IOEnv.TRACE)
Verdict(e) == CASE e.op = "rt" -> IF RoundTripOK(e) THEN "" ELSE "roundtrip"
                [] e.op = "mut" -> MutVerdict(e)
                [] e.op = "ctor" -> CtorVerdict(e)
Detail(e) == IF e.op = "mut" /\ e.o = "ok" THEN ShapeViol(e.shape) ELSE {}
VARIABLES i, verdict, detail
vars == <<i, verdict, detail>>
Init == i \in 1..Len(Rec) /\ verdict = Verdict(Rec[i]) /\ detail = Detail(Rec[i])
Next == UNCHANGED vars
Accepted == verdict = ""
===============================================================================
