----------------------------- MODULE Trace_Calendar -----------------------------
(* (V) Validation of recorded DateRoll executions against Calendar's DECLARATIVE   *)
(* layer.  Observation-set idiom: one initial state per recorded event (one event  *)
(* = one real calendar object, projected to its business / settlement bitmaps, and *)
(* the queries it was asked with the answers it gave).  The state carries the set  *)
(* `bad` of query indices whose recorded answer the specification rejects; the     *)
(* invariant is bad = {}.  With -continue TLC reports every rejected event.        *)
(*                                                                                 *)
(* Which queries are judged is selected by IOEnv.PROP so that each property owns   *)
(* its own verdict:  C04 roll;  C05 add_bus / lag / range / add_days;              *)
(* C08 add_months (+ the months events);  C20 totality of all of them.             *)
EXTENDS Calendar, Json, IOUtils, TLC

Rec  == ndJsonDeserialize(IOEnv.TRACE)
Prop == IOEnv.PROP

P2 == <<1, 2, 4, 8, 16, 32, 64, 128, 256, 512, 1024, 2048, 4096, 8192, 16384, 32768, 65536, 131072, 262144,
        524288, 1048576, 2097152, 4194304, 8388608, 16777216, 33554432, 67108864, 134217728, 268435456, 536870912>>
Bit(w, b) == (w \div P2[b + 1]) % 2 = 1
BitsToSet(words, w0, n) == {w0 + j : j \in {k \in 0..(n - 1) : Bit(words[(k \div 30) + 1], k % 30)}}
CalOfEvent(e) == [lo |-> e.w0, hi |-> e.w0 + e.n - 1,
                  bus |-> BitsToSet(e.bus, e.w0, e.n), stl |-> BitsToSet(e.stl, e.w0, e.n)]

RollOfJson(r) == IF r.k = "Int" THEN [k |-> "Int", day |-> r.day] ELSE [k |-> r.k]

\* verdict for one query: "ok", "bad", or "oow" (the specification's answer leaves the logged window)
Want(c, q) ==
  CASE q.f = "roll"       -> {RollDecl(c, q.d, q.m, q.s)}
    [] q.f = "add_bus"    -> {AddBusDaysDecl(c, q.d, q.n, q.s)}
    [] q.f = "lag"        -> LagDeclSet(c, q.d, q.n, q.s)
    [] q.f = "add_days"   -> {AddDaysDecl(c, q.d, q.n, q.m, q.s)}
    [] q.f = "add_months" -> {AddMonthsDecl(c, q.d, q.mo, q.m, RollOfJson(q.roll), q.s)}
Owned(q) ==
  CASE Prop = "C04" -> q.f = "roll"
    [] Prop = "C05" -> q.f \in {"add_bus", "lag", "range", "add_days", "cal_range", "non_bus"}
    [] Prop = "C08" -> q.f = "add_months"
    [] Prop = "C20" -> TRUE
    [] OTHER -> TRUE
RangeVerdict(c, q) ==
  LET w == BusDateRangeDecl(c, q.a, q.b) IN
  IF ~InWin(c, q.a) \/ ~InWin(c, q.b) THEN "oow"
  ELSE IF q.o = "panic" THEN "bad"
  ELSE IF w = ErrSeq THEN (IF q.o = "err" THEN "ok" ELSE "bad")
  ELSE IF q.o = "ok" /\ q.r = w THEN "ok" ELSE "bad"
\* the calendar-date range is every day from a to b inclusive (empty when a > b); a non-business day is a day that is
\* not a business day
RECURSIVE Consec(_, _)
Consec(a, b) == IF a > b THEN <<>> ELSE <<a>> \o Consec(a + 1, b)
CalRangeVerdict(c, q) == IF q.o = "ok" /\ q.r = Consec(q.a, q.b) THEN "ok" ELSE "bad"
NonBusVerdict(c, q) == IF ~InWin(c, q.d) THEN "oow" ELSE IF q.o = "ok" /\ q.r = ~Bus(c, q.d) THEN "ok" ELSE "bad"
Verdict(c, q) ==
  IF q.f = "cal_range" THEN CalRangeVerdict(c, q) ELSE IF q.f = "non_bus" THEN NonBusVerdict(c, q) ELSE
  IF q.f = "range" THEN RangeVerdict(c, q) ELSE
  LET w == Want(c, q) IN
  IF NoDate \in w THEN "oow"
  ELSE IF q.o = "panic" THEN "bad"                       \* an abort is never an admissible answer
  ELSE IF Prop = "C20" THEN                               \* totality AND value
       (IF (q.o = "err" /\ w = {Err}) \/ (q.o = "ok" /\ q.r \in w) THEN "ok" ELSE "bad")
  ELSE IF w = {Err} THEN (IF q.o = "err" THEN "ok" ELSE "bad")
  ELSE IF q.o = "ok" /\ q.r \in w THEN "ok" ELSE "bad"

\* ---- month-arithmetic events (no calendar involved) -----------------------------
MVerdict(q) ==
  CASE q.f = "is_leap" -> IF q.r = IsLeap(q.y) THEN "ok" ELSE "bad"
    [] q.f = "imm_eom" ->
         IF /\ q.imm = ImmDecl(q.y, q.m) /\ q.eom = LastOfMonth(q.y, q.m)
            /\ q.is_imm_at /\ q.is_eom_at /\ ~q.is_imm_prev /\ ~q.is_eom_prev THEN "ok" ELSE "bad"
    [] q.f = "get_roll" -> IF q.roll.k = "Unspecified" THEN (IF q.o = "err" THEN "ok" ELSE "bad")   \* documented error
                           ELSE IF q.o = "ok" /\ q.r = GetRollDecl(q.y, q.m, RollOfJson(q.roll)) THEN "ok" ELSE "bad"
    [] q.f = "add_months_raw" ->
         IF q.o = "ok" /\ q.r = AddMonthsRawDecl(q.d, q.mo, RollOfJson(q.roll)) THEN "ok" ELSE "bad"

\* a union's projection must itself be the union of the projections of its individually built parts
\* (otherwise judging against the logged bitmaps would inherit a defect of is_bus_day / is_settlement)
RECURSIVE InterAll(_, _)
InterAll(sets, acc) == IF sets = <<>> THEN acc ELSE InterAll(Tail(sets), acc \cap Head(sets))
\* and a calendar built from a holiday list and a week mask answers is_bus_day by exactly those (Calendar.BaseCal):
\* whatever order the list was supplied in, with or without repeats
DefOK(e) == "defs" \in DOMAIN e =>
   LET rng == e.w0..(e.w0 + e.n - 1) IN
   \A k \in 1..Len(e.defs) :
      LET df == e.defs[k] hols == {df.hols[j] : j \in 1..Len(df.hols)} mask == {df.mask[j] : j \in 1..Len(df.mask)} IN
      BitsToSet(df.bits, e.w0, e.n) = {d \in rng : Weekday(d) \notin mask /\ d \notin hols}
\* what the Python-facing getters show is what the object is: a Cal's `holidays` / `week_mask` are the list and mask it was
\* built from; a union's `calendars` / `settlement_calendars` are its members (projection for projection); a named
\* calendar's `name` is its name and its `union_cal` answers as the named calendar does
SetOfSeq(s) == {s[j] : j \in 1..Len(s)}
PyvOK(e) == "pyv" \in DOMAIN e =>
   /\ e.pyv.o = "ok"
   /\ CASE e.kind = "PyCal" -> ("defs" \in DOMAIN e => SetOfSeq(e.pyv.hols) = SetOfSeq(e.defs[1].hols) /\ SetOfSeq(e.pyv.mask) = SetOfSeq(e.defs[1].mask))
        [] e.kind = "PyUnionCal" -> e.pyv.mb = e.mb /\ e.pyv.sb = e.sb /\ e.pyv.hs = e.hs
        [] e.kind = "PyNamedCal" -> e.pyv.name = e.pyv.want_name /\ e.pyv.ubus = e.bus /\ e.pyv.ustl = e.stl
        [] OTHER -> TRUE
ProjOK(e) == DefOK(e) /\ PyvOK(e) /\ ("mb" \in DOMAIN e =>
   LET rng == e.w0..(e.w0 + e.n - 1) c == CalOfEvent(e) IN
   /\ c.bus = InterAll([k \in 1..Len(e.mb) |-> BitsToSet(e.mb[k], e.w0, e.n)], rng)
   /\ c.stl = (IF e.hs THEN InterAll([k \in 1..Len(e.sb) |-> BitsToSet(e.sb[k], e.w0, e.n)], rng) ELSE rng))
BadOf(e) == IF e.op = "cal"
            THEN LET c == CalOfEvent(e) IN {k \in 1..Len(e.q) : Owned(e.q[k]) /\ Verdict(c, e.q[k]) = "bad"}
                                           \cup (IF ProjOK(e) THEN {} ELSE {0})
            ELSE {k \in 1..Len(e.q) : MVerdict(e.q[k]) = "bad"}
OowOf(e) == IF e.op = "cal"
            THEN LET c == CalOfEvent(e) IN Cardinality({k \in 1..Len(e.q) : Owned(e.q[k]) /\ Verdict(c, e.q[k]) = "oow"})
            ELSE 0
JudgedOf(e) == IF e.op = "cal" THEN Cardinality({k \in 1..Len(e.q) : Owned(e.q[k])}) ELSE Len(e.q)

VARIABLES i, bad, oow, judged
vars == <<i, bad, oow, judged>>
Init == /\ i \in 1..Len(Rec)
        /\ bad = BadOf(Rec[i]) /\ oow = OowOf(Rec[i]) /\ judged = JudgedOf(Rec[i])
Next == UNCHANGED vars
Accepted == bad = {}
\* anti-vacuity: the harness leaves margins, so the specification must never leave the window
NoOow == oow = 0
===============================================================================
