CONSTANTS
  Years = {2000, 2023, 2099}
  MonthsSet = {1,2,3,4,5,6,7,8,9,10,11,12}
  Offsets <- OffsQuick
INIT Init
NEXT Next
INVARIANTS AddMonthsAgree MonthFacts
CHECK_DEADLOCK FALSE
