--------------------------------- MODULE MC_Gauss ---------------------------------
(* (M) for C13: every N x N integer matrix over Entries with a fixed right-hand side,  *)
(* elimination explored action by action.                                              *)
EXTENDS Gauss, TLC, SequencesExt, Json, IOUtils
CONSTANTS N, Entries, RHS
VARIABLES A0, A, b, j, l, i, phase, x
vars == <<A0, A, b, j, l, i, phase, x>>
E3q == {-1, 0, 1}
E3t == {-1, 0, 1, 2}
E2 == -2..2
R3 == <<1, 2, -1>>
R2 == <<1, -2>>
Mat == [1..N -> [1..N -> Entries]]
ToR(M) == [r \in 1..N |-> [c \in 1..N |-> RI(M[r][c])]]
B0 == [r \in 1..N |-> RI(RHS[r])]
Init == /\ A0 \in Mat /\ Det(A0, N) # 0                   \* non-singular systems only
        /\ A = ToR(A0) /\ b = B0 /\ j = 1 /\ l = 0 /\ i = 0 /\ phase = "pivot" /\ x = [r \in 1..N |-> RI(0)]
Pivot == /\ phase = "pivot"
         /\ LET k == PivotRow(A, j, N) IN
            IF k # j THEN /\ A' = SwapRows(A, j, k) /\ b' = SwapEls(b, j, k) /\ phase' = "swapped"
            ELSE /\ UNCHANGED <<A, b>> /\ phase' = "noswap"
         /\ l' = j + 1 /\ UNCHANGED <<A0, j, i, x>>
Eliminate == /\ phase \in {"swapped", "noswap", "elim"}
             /\ IF l <= N
                THEN LET r == ElimRow(A, b, j, l, N) IN A' = r[1] /\ b' = r[2] /\ l' = l + 1 /\ phase' = "elim" /\ UNCHANGED <<j, i>>
                ELSE IF j < N THEN /\ j' = j + 1 /\ phase' = "pivot" /\ UNCHANGED <<A, b, l, i>>
                ELSE /\ phase' = "back" /\ i' = N /\ UNCHANGED <<A, b, l, j>>
             /\ UNCHANGED <<A0, x>>
BackSub == /\ phase = "back"
           /\ IF i >= 1 THEN x' = [x EXCEPT ![i] = BackSubAt(A, b, x, i, N)] /\ i' = i - 1 /\ UNCHANGED phase
              ELSE phase' = "done" /\ UNCHANGED <<x, i>>
           /\ UNCHANGED <<A0, A, b, j, l>>
Next == Pivot \/ Eliminate \/ BackSub
Truth == Cramer(A0, RHS, N)
\* after choosing the pivot row, the pivot is non-zero (the matrix is non-singular)
PivotNonZero == phase \in {"swapped", "noswap", "elim"} => ~RIsZero(A[j][j])
\* every intermediate system has the original solution (row operations only)
RowEquivalent == \A r \in 1..N : RowDot(A[r], Truth, 1, N) = b[r]
\* below-diagonal entries of finished columns are exactly zero
UpperSoFar == \A c \in 1..N, r \in 1..N : (c < j /\ r > c) => RIsZero(A[r][c])
Solved == phase = "done" => x = Truth
\* (G) the non-singular matrices, for replay
CaseSeq == SetToSeq({[A |-> M, b |-> RHS] : M \in {m \in Mat : Det(m, N) # 0}})
===============================================================================
