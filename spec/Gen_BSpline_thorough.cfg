CONSTANTS
  MaxK = 6
  NInt = 3
INIT GInit
NEXT GNext
CHECK_DEADLOCK FALSE
