------------------------------- MODULE MC_Months -------------------------------
(* C08: the year-carry arithmetic of add_months (truncating division, remainder,   *)
(* the <= 0 / >= 13 / == 0 branches) against total-months arithmetic, for every    *)
(* start month x offset x start day x roll kind; IMM table against "the Wednesday  *)
(* among the 15th..21st"; day capping by stepping down against min(day, length).   *)
(* One initial state per (year, month, day, offset); the invariant quantifies over *)
(* the 35 roll kinds.                                                              *)
EXTENDS Calendar, TLC
CONSTANTS Years, MonthsSet, Offsets
VARIABLES y, m, day, off
\* every remainder, every multiple of 12 and its neighbours, both signs, long offsets
OffsQuick == (-14..14) \cup {s * (k + j) : s \in {-1, 1}, k \in {24, 36, 48, 60, 120, 1200}, j \in {-1, 0, 1}}
OffsThorough == -1300..1300
vars == <<y, m, day, off>>
Rolls == {[k |-> "Unspecified"], [k |-> "EoM"], [k |-> "SoM"], [k |-> "IMM"]} \cup {[k |-> "Int", day |-> d] : d \in 1..31}
Init == /\ y \in Years /\ m \in MonthsSet /\ day \in {1, 15, 28, 29, 30, 31} /\ day <= DaysInMonth(y, m)
        /\ off \in Offsets
Next == UNCHANGED vars
D0 == DaysFromCivil(y, m, day)
InRange == LET tot == y * 12 + (m - 1) + off IN tot >= 1970 * 12 /\ tot <= 2200 * 12 + 11
AddMonthsAgree == InRange => \A r \in Rolls :
   LET a == AddMonthsRawAlg(D0, off, r) d == AddMonthsRawDecl(D0, off, r)
       cv == CivilFromDays(d) tot == y * 12 + (m - 1) + off
   IN /\ a = d
      /\ cv[1] * 12 + (cv[2] - 1) = tot                                  \* lands in the month exactly `off` away
      /\ (r.k = "EoM" => cv[3] = DaysInMonth(cv[1], cv[2]))
      /\ (r.k = "SoM" => cv[3] = 1)
      /\ (r.k = "Int" => cv[3] = MinI(r.day, DaysInMonth(cv[1], cv[2])))
      /\ (r.k = "Unspecified" => cv[3] = MinI(day, DaysInMonth(cv[1], cv[2])))
      /\ (r.k = "IMM" => Weekday(d) = 2 /\ cv[3] \in 15..21)
\* evaluated once per (y, m): the free functions
MonthFacts == day = 1 /\ off = 0 =>
   /\ ImmAlg(y, m) = ImmDecl(y, m)
   /\ \A dd \in 1..31 : RollByDayAlg(y, m, dd) = DaysFromCivil(y, m, MinI(dd, DaysInMonth(y, m)))
   /\ LastOfMonth(y, m) + 1 = (IF m = 12 THEN FirstOfMonth(y + 1, 1) ELSE FirstOfMonth(y, m + 1))
   /\ (IsLeap(y) <=> DaysFromCivil(y, 3, 1) - DaysFromCivil(y, 2, 1) = 29)
================================================================================
