CONSTANTS
  Names = {"a", "b", "c"}
  Absent = "z"
INIT Init
NEXT Next
CHECK_DEADLOCK FALSE
