-------------------------------- MODULE MC_NumVM --------------------------------
(* (M) for C01 / C02: the differentiation rules of DualAlgebra explored as a register *)
(* machine.  State: the program so far and the abstract value (value, gradient and    *)
(* TRUE Hessian by name) of every register.  Each step appends one instruction.       *)
(* Invariants, evaluated on every reachable program of depth <= MaxDepth over the     *)
(* leaf set: the value equals plain floating-point evaluation of the same expression  *)
(* tree; the gradient equals central finite differences of that plain evaluation      *)
(* (h = 1e-5); the Hessian equals second-order central differences (h = 1e-3) and is  *)
(* symmetric.  This validates the SPECIFICATION's rules against calculus, inside TLC, *)
(* independently of the crate; Trace_NumVM then holds the crate to the same rules.    *)
EXTENDS DualAlgebra, Integers, Sequences, TLC
CONSTANTS MaxDepth
NS == {"a", "b", "c"}
VARIABLES regs, prog
vars == <<regs, prog>>
Strip(W) == [re |-> W.re, g |-> W.g, h |-> W.h]
Var(x, nm) == [re |-> x, g |-> [n \in NS |-> IF n = nm THEN FOne ELSE FZ], h |-> [p \in NS \X NS |-> FZ]]
Point == [a |-> FOfRat(13, 10), b |-> FOfRat(7, 10), c |-> FOfRat(-4, 5)]
Leaves == <<[op |-> "var", nm |-> "a"], [op |-> "var", nm |-> "b"], [op |-> "var", nm |-> "c"],
            [op |-> "const", v |-> FOfRat(17, 10)], [op |-> "const", v |-> FOfRat(3, 10)]>>
LeafNum(l, pt) == IF l.op = "var" THEN Var(pt[l.nm], l.nm) ELSE Const(l.v, NS)
Init == /\ prog = Leaves /\ regs = [i \in 1..Len(Leaves) |-> LeafNum(Leaves[i], Point)]
BinOps == {"add", "sub", "mul", "div"}
UnOps == {"neg", "exp", "log", "pow2", "pow3", "powm1", "powh", "powm32", "ncdf", "incdf", "abs"}
PowOf(o) == CASE o = "pow2" -> FOfInt(2) [] o = "pow3" -> FOfInt(3) [] o = "powm1" -> FOfInt(-1) [] o = "powh" -> FOfRat(1, 2) [] o = "powm32" -> FOfRat(-3, 2)
ApplyBin(o, x, y) == Strip(CASE o = "add" -> Add(x, y, NS) [] o = "sub" -> Sub(x, y, NS) [] o = "mul" -> Mul(x, y, NS) [] o = "div" -> Div(x, y, NS))
ApplyUn(o, x) == Strip(CASE o = "neg" -> Neg(x, NS) [] o = "exp" -> Exp(x, NS) [] o = "log" -> Log(x, NS)
                         [] o \in {"pow2", "pow3", "powm1", "powh", "powm32"} -> Pow(x, PowOf(o), NS)
                         [] o = "ncdf" -> NormCdf(x, NS) [] o = "incdf" -> InvNormCdf(x, NS) [] o = "abs" -> Abs(x, NS))
Lo == FOfRat(1, 10)
Hi == FOfInt(30)
\* differentiable and well-conditioned domain of each operation (away from kinks and poles)
DomUn(o, x) == CASE o \in {"log", "powm1", "powh", "powm32"} -> FLt(Lo, x.re) /\ FLt(x.re, Hi)
                 [] o = "exp" -> FLt(FAbs(x.re), FOfInt(3))
                 [] o = "incdf" -> FLt(FOfRat(1, 20), x.re) /\ FLt(x.re, FOfRat(19, 20))
                 [] o = "abs" -> FLt(Lo, FAbs(x.re))
                 [] o = "ncdf" -> FLt(FAbs(x.re), FOfInt(4))
                 [] OTHER -> FLt(FAbs(x.re), Hi)
DomBin(o, x, y) == FLt(FAbs(x.re), Hi) /\ FLt(FAbs(y.re), Hi) /\ (o = "div" => FLt(Lo, FAbs(y.re)))
Next == /\ Len(prog) < Len(Leaves) + MaxDepth
        /\ \/ \E o \in BinOps, i, j \in 1..Len(prog) :
                /\ DomBin(o, regs[i], regs[j])
                /\ prog' = Append(prog, [op |-> o, l |-> i, r |-> j]) /\ regs' = Append(regs, ApplyBin(o, regs[i], regs[j]))
           \/ \E o \in UnOps, i \in 1..Len(prog) :
                /\ DomUn(o, regs[i])
                /\ prog' = Append(prog, [op |-> o, l |-> i]) /\ regs' = Append(regs, ApplyUn(o, regs[i]))
\* independent plain-float evaluator of the program at a point
RECURSIVE Plain(_, _)
Plain(k, pt) == LET e == prog[k] IN
  CASE e.op = "var" -> pt[e.nm] [] e.op = "const" -> e.v
    [] e.op = "add" -> FAdd(Plain(e.l, pt), Plain(e.r, pt)) [] e.op = "sub" -> FSub(Plain(e.l, pt), Plain(e.r, pt))
    [] e.op = "mul" -> FMul(Plain(e.l, pt), Plain(e.r, pt)) [] e.op = "div" -> FDiv(Plain(e.l, pt), Plain(e.r, pt))
    [] e.op = "neg" -> FNeg(Plain(e.l, pt)) [] e.op = "exp" -> FExp(Plain(e.l, pt)) [] e.op = "log" -> FLog(Plain(e.l, pt))
    [] e.op \in {"pow2", "pow3", "powm1", "powh", "powm32"} -> FPow(Plain(e.l, pt), PowOf(e.op))
    [] e.op = "ncdf" -> FNormCdf(Plain(e.l, pt)) [] e.op = "incdf" -> FInvNormCdf(Plain(e.l, pt)) [] e.op = "abs" -> FAbs(Plain(e.l, pt))
H1 == FOfRat(1, 100000)
H2 == FOfRat(1, 1000)
Shift(pt, nm, dx) == [pt EXCEPT ![nm] = FAdd(pt[nm], dx)]
FD1(k, nm) == FDiv(FSub(Plain(k, Shift(Point, nm, H1)), Plain(k, Shift(Point, nm, FNeg(H1)))), FMul(FTwo, H1))
FD2(k, n1, n2) ==
  IF n1 = n2 THEN FDiv(FAdd(FSub(Plain(k, Shift(Point, n1, H2)), FMul(FTwo, Plain(k, Point))), Plain(k, Shift(Point, n1, FNeg(H2)))), FMul(H2, H2))
  ELSE FDiv(FSub(FAdd(Plain(k, Shift(Shift(Point, n1, H2), n2, H2)), Plain(k, Shift(Shift(Point, n1, FNeg(H2)), n2, FNeg(H2)))),
                 FAdd(Plain(k, Shift(Shift(Point, n1, H2), n2, FNeg(H2))), Plain(k, Shift(Shift(Point, n1, FNeg(H2)), n2, H2)))), FMul(FOfInt(4), FMul(H2, H2)))
Last == Len(prog)
\* well-conditioned results only: finite differences of a value of size 1e4 cannot resolve 1e-5 relative
Conditioned == FLt(FAbs(regs[Last].re), FOfInt(200)) /\ \A n \in NS : FLt(FAbs(regs[Last].g[n]), FOfInt(2000))
               /\ \A p \in NS \X NS : FLt(FAbs(regs[Last].h[p]), FOfInt(20000))
ValueMatchesPlain == FCloseTol(regs[Last].re, Plain(Last, Point), FOfRat(1, 1000000000))
GradMatchesFD == Conditioned => \A nm \in NS : FCloseTol(regs[Last].g[nm], FD1(Last, nm), FOfRat(1, 10000))
HessMatchesFD == Conditioned => \A p \in NS \X NS : FCloseTol(regs[Last].h[p], FD2(Last, p[1], p[2]), FOfRat(1, 100))
HessSymmetricInv == \A p \in NS \X NS : FCloseTol(regs[Last].h[p], regs[Last].h[<<p[2], p[1]>>], FOfRat(1, 1000000000))
\* a float operand is the same as a constant lifted to a number with no variables (checked on the rule level)
FloatIsConstant == \A i \in 1..Len(prog) : prog[i].op = "const" => regs[i] = Const(prog[i].v, NS)
===============================================================================
