-------------------------------- MODULE Trace_FX --------------------------------
(* (V) for C09 / C10: recorded HISTORIES of real FXRates objects validated against  *)
(* FXRates.tla.  One behaviour per history: the initial state selects a history,    *)
(* each step consumes its next event through the specification's own action         *)
(* (construction = Build, Update, SetOrder).  After every step the object's logged  *)
(* projection (currency order, derivative order, every cross rate, its gradient by  *)
(* the EXPECTED variable names, Hessians of a probe subset) must equal what the     *)
(* specification derives from its own state:                                        *)
(*     rate(i,j)      = PROD_k q_k ^ e_k           e = exponent vector fx[i][j]      *)
(*     d rate / d x   = SUM_k e_k * rate / q_k * dq_k/dx                             *)
(*     d2 rate/dx dy  = SUM_k SUM_m e_k (e_m - [k=m]) rate/(q_k q_m) dq_k/dx dq_m/dy *)
(* where a plain-number quote for pair lr has the single variable fx_lr with dq/dx=1 *)
(* and a quote that is already a dual number keeps its own variables.                *)
EXTENDS FXRates, FP, Json, IOUtils, TLC

Hist == ndJsonDeserialize(IOEnv.TRACE)
Prop == IOEnv.PROP

\* ---- values from exponents -----------------------------------------------------------
RECURSIVE ProdExp(_, _, _)
ProdExp(qv, e, k) == IF k > Len(e) THEN FOne
                     ELSE LET rest == ProdExp(qv, e, k + 1) IN
                          IF e[k] = 1 THEN FMul(qv[k], rest) ELSE IF e[k] = -1 THEN FDiv(rest, qv[k]) ELSE rest
RateVal(qv, e) == ProdExp(qv, e, 1)
\* dq_k / d name
DQ(q, nm) == LET idx == {t \in 1..Len(q.vars) : q.vars[t] = nm} IN
             IF idx = {} THEN FZ ELSE q.g[CHOOSE t \in idx : TRUE]
Grad(qs, qv, e, R, nm) == FSumL([k \in 1..Len(e) |-> IF e[k] = 0 THEN FZ
                                   ELSE FMul(FOfInt(e[k]), FMul(FDiv(R, qv[k]), DQ(qs[k], nm)))])
GradScale(qs, qv, e, R, nm) == FSumL([k \in 1..Len(e) |-> IF e[k] = 0 THEN FZ ELSE FAbs(FMul(FDiv(R, qv[k]), DQ(qs[k], nm)))])
\* d2 q_k / d name1 d name2 : non-zero only for a quote that is itself a second-order number
HQ(q, n1, n2) == IF ~("h" \in DOMAIN q) \/ q.h = <<>> THEN FZ
                 ELSE LET i1 == {t \in 1..Len(q.vars) : q.vars[t] = n1} i2 == {t \in 1..Len(q.vars) : q.vars[t] = n2} IN
                      IF i1 = {} \/ i2 = {} THEN FZ ELSE q.h[CHOOSE t \in i1 : TRUE][CHOOSE t \in i2 : TRUE]
\* first-order response of the rate to each quote times that quote's own curvature
HessOwn(qs, qv, e, R, n1, n2) == FSumL([k \in 1..Len(e) |-> IF e[k] = 0 THEN FZ ELSE FMul(FOfInt(e[k]), FMul(FDiv(R, qv[k]), HQ(qs[k], n1, n2)))])
HessOwnScale(qs, qv, e, R, n1, n2) == FSumL([k \in 1..Len(e) |-> IF e[k] = 0 THEN FZ ELSE FAbs(FMul(FDiv(R, qv[k]), HQ(qs[k], n1, n2)))])
HessCross(qs, qv, e, R, n1, n2) ==
  FSumL([k \in 1..Len(e) |-> IF e[k] = 0 THEN FZ ELSE
     FSumL([m \in 1..Len(e) |-> IF e[m] = 0 THEN FZ ELSE
        LET c == e[k] * (e[m] - (IF k = m THEN 1 ELSE 0)) IN
        IF c = 0 THEN FZ ELSE
        FMul(FOfInt(c), FMul(FDiv(FDiv(R, qv[k]), qv[m]), FMul(DQ(qs[k], n1), DQ(qs[m], n2))))])])
HessCrossScale(qs, qv, e, R, n1, n2) ==
  FSumL([k \in 1..Len(e) |-> IF e[k] = 0 THEN FZ ELSE
     FSumL([m \in 1..Len(e) |-> IF e[m] = 0 THEN FZ ELSE
        FAbs(FMul(FOfInt(2), FMul(FDiv(FDiv(R, qv[k]), qv[m]), FMul(DQ(qs[k], n1), DQ(qs[m], n2)))))])])
Hess(qs, qv, e, R, n1, n2) == FAdd(HessCross(qs, qv, e, R, n1, n2), HessOwn(qs, qv, e, R, n1, n2))
HessScale(qs, qv, e, R, n1, n2) == FAdd(HessCrossScale(qs, qv, e, R, n1, n2), HessOwnScale(qs, qv, e, R, n1, n2))

\* ---- the specification's market state during validation ---------------------------------
\* mk = [st (FXRates state record over currency NAMES), quotes (records with l, r, v, vars, g, kind, settle), order]
PairsOf(qs) == [k \in 1..Len(qs) |-> [l |-> qs[k].l, r |-> qs[k].r]]
SettleTags(qs) == [k \in 1..Len(qs) |-> qs[k].settle]
BuildMk(qs, baseSeq) == Build(PairsOf(qs), baseSeq, SettleTags(qs))

\* C09 owns construction and VALUES (in every state a history reaches: the quoted pairs, the diagonal and the path
\* products must hold whatever operations came before); C10 additionally owns sensitivities
Sens == Prop # "C09"
\* The attributes and methods Python sees (rust/fx/rates_py.rs) are views of the same state: `currencies`, `base` (the
\* first currency), `ad`, `fx_array` (the whole matrix), `fx_vector` (its base row), `rate(lhs, rhs)`, `get_ccy_index`,
\* `fx_rates` (the quotes as given, with pair / rate / ad / settlement getters), `__copy__` / `__eq__`.  Each must agree,
\* bit for bit, with the projection of the core object logged next to it.
PyViewOK(s) ==
  LET p == s.py n == Len(s.ccys) IN
  /\ ~("fail" \in DOMAIN p)
  /\ p.ccys = s.ccys /\ p.base = s.ccys[1] /\ p.ad = s.order /\ p.copy_eq /\ p.outsider_none
  /\ p.idx = [i \in 1..(n + 1) |-> IF i <= n THEN i - 1 ELSE -1]
  /\ Len(p.array) = n * n /\ Len(p.rate) = n * n /\ Len(p.vector) = n
  /\ \A q \in 1..(n * n) : /\ p.array[q].re = s.re[q] /\ p.array[q].g = s.g[q] /\ p.array[q].k = s.kinds[q]
                            /\ p.rate[q] = p.array[q]
  /\ \A j \in 1..n : p.vector[j] = p.array[j]                                      \* the base row
  /\ Len(p.quotes) = Len(s.quotes)
  /\ \A k \in 1..Len(s.quotes) : /\ p.quotes[k].pair = s.quotes[k].l \o s.quotes[k].r /\ p.quotes[k].v = s.quotes[k].v
                                   /\ p.quotes[k].settle = s.quotes[k].settle
                                   /\ p.quotes[k].ad = (CASE s.quotes[k].kind = "F" -> 0 [] s.quotes[k].kind = "D1" -> 1 [] s.quotes[k].kind = "D2" -> 2)
\* does the logged projection `s` agree with the specification's market (st, qs, order)?
StateOK(st, qs, order, s) ==
  LET n == Len(st.idx)
      qv == [k \in 1..Len(qs) |-> qs[k].v]
      kind == IF order = 0 THEN "F" ELSE IF order = 1 THEN "D1" ELSE "D2"
  IN /\ s.ccys = st.idx                                       \* currency order: base first, then first appearance
     /\ s.order = order
     /\ Len(s.re) = n * n
     /\ s.unknown_none
     /\ ("py" \in DOMAIN s => PyViewOK(s))
     /\ Len(s.quotes) = Len(qs)
     /\ \A k \in 1..Len(qs) : s.quotes[k].l = qs[k].l /\ s.quotes[k].r = qs[k].r /\ s.quotes[k].v = qs[k].v
     /\ \A i, j \in 1..n :
          LET p == (i - 1) * n + j
              e == st.fx[i][j]
              R == RateVal(qv, e)
          IN /\ s.kinds[p] = kind
             /\ (i = j => s.re[p] = FOne)                                            \* a currency against itself is exactly 1
             /\ \A k \in 1..Len(qs) : (st.idx[i] = qs[k].l /\ st.idx[j] = qs[k].r) => s.re[p] = qs[k].v   \* quoted pair exactly as quoted
             /\ FClose(s.re[p], R, R)
             /\ FClose(FMul(s.re[p], s.re[(j - 1) * n + i]), FOne, FOne)              \* rate times inverse
             /\ (Sens => \A t \in 1..Len(s.names) :
                   LET nm == s.names[t] want == IF order = 0 THEN FZ ELSE Grad(qs, qv, e, R, nm) IN
                   FClose(s.g[p][t], want, GradScale(qs, qv, e, R, nm)))
             /\ (order > 0 => \A v \in 1..Len(s.vars[p]) : \E t \in 1..Len(s.names) : s.names[t] = s.vars[p][v])   \* no stray variable names
     \* a Hessian read back by the rate's own names in reverse order is the same matrix re-indexed (a read-back copies)
     /\ (Sens /\ "hr" \in DOMAIN s) => \A x \in 1..Len(s.hr) :
          LET nm == s.hr[x].names
              NmPos(a) == CHOOSE t \in 1..Len(s.names) : s.names[t] = nm[a]
          IN /\ \A a \in 1..Len(nm) : \E t \in 1..Len(s.names) : s.names[t] = nm[a]
             /\ \A a, b \in 1..Len(nm) : s.hr[x].m[a][b] = s.h[x][NmPos(a)][NmPos(b)]
     /\ Sens => \A x \in 1..Len(s.hp) :
          LET p == s.hp[x] i == ((p - 1) \div n) + 1 j == ((p - 1) % n) + 1
              e == st.fx[i][j] R == RateVal(qv, e)
          IN \A t1, t2 \in 1..Len(s.names) :
               FClose(s.h[x][t1][t2], Hess(qs, qv, e, R, s.names[t1], s.names[t2]),
                      HessScale(qs, qv, e, R, s.names[t1], s.names[t2]))

\* replace, for each given quote, the LAST existing quote of the same pair
RECURSIVE ApplyUpd(_, _, _)
ApplyUpd(qs, upd, u) == IF u > Len(upd) THEN qs
                        ELSE LET k == LastMatch(qs, upd[u]) IN ApplyUpd([qs EXCEPT ![k] = upd[u]], upd, u + 1)
KnownAll(qs, upd) == \A u \in 1..Len(upd) : \E k \in 1..Len(qs) : qs[k].l = upd[u].l /\ qs[k].r = upd[u].r

\* "switching derivative order never changes a rate's value": equal up to rounding, not bit for bit - the crate
\* forms reciprocals as powf(x, -1.0), which the optimiser turns into 1.0/x in some instantiations and not in
\* others (observed: 1 ulp between the first- and second-order matrices of the same market)
SameValues(a, b) == Len(a) = Len(b) /\ \A k \in 1..Len(a) : FClose(a[k], b[k], b[k])
VARIABLES h, l, st, qs, order, pl, ok, why
vars == <<h, l, st, qs, order, pl, ok, why>>
\* what TLC prints for a rejected history (the full state holds whole markets)
Alias == [h |-> h, l |-> l, ok |-> ok, why |-> why, order |-> order]
prev == Hist[h].ev[pl].state          \* the projection logged at the last accepted event
NoState == [none |-> TRUE]
Init == /\ h \in 1..Len(Hist) /\ l = 0 /\ st = NoState /\ qs = <<>> /\ order = 1 /\ pl = 0 /\ ok = TRUE /\ why = "init"

Ev == Hist[h].ev[l + 1]
\* construction
New == /\ l = 0 /\ Len(Hist[h].ev) > 0 /\ Ev.op = "new"
       /\ LET b == BuildMk(Ev.quotes, Ev.base) IN
          IF b.phase = "ready"
          THEN /\ st' = b /\ qs' = Ev.quotes /\ order' = 1
               /\ IF Ev.o = "ok" THEN ok' = StateOK(b, Ev.quotes, 1, Ev.state) /\ pl' = 1
                                 ELSE ok' = FALSE /\ pl' = 0
               /\ why' = "new:ready"
          ELSE /\ st' = b /\ qs' = Ev.quotes /\ order' = 1 /\ pl' = 0
               /\ ok' = (Ev.o = "err")                    \* rejected with an error: never rates, never a panic
               /\ why' = "new:" \o b.phase
       /\ l' = 1 /\ UNCHANGED h
\* a market observed mid-life (traces of the crate's own tests record the object at the entry of update / set_ad_order):
\* it must be the market built from its current quotes with its first currency as base, at its current order
Given == /\ l = 0 /\ Len(Hist[h].ev) > 0 /\ Ev.op = "given"
         /\ LET b == BuildMk(Ev.quotes, Ev.base) IN
            /\ st' = b /\ qs' = Ev.quotes /\ order' = Ev.state.order /\ pl' = 1
            /\ ok' = (b.phase = "ready" /\ StateOK(b, Ev.quotes, Ev.state.order, Ev.state))
            /\ why' = "given"
         /\ l' = 1 /\ UNCHANGED h
\* update: refused without changing anything, or rebuilt from the latest quotes at order 1
Upd == /\ l > 0 /\ ok /\ l < Len(Hist[h].ev) /\ Ev.op = "update" /\ st.phase = "ready"
       /\ IF KnownAll(qs, Ev.quotes) /\ BuildMk(ApplyUpd(qs, Ev.quotes, 1), <<st.idx[1]>>).phase = "ready"
          THEN LET q2 == ApplyUpd(qs, Ev.quotes, 1) b == BuildMk(q2, <<st.idx[1]>>) IN
               /\ st' = b /\ qs' = q2 /\ order' = 1
               /\ ok' = (Ev.o = "ok" /\ StateOK(b, q2, 1, Ev.state)) /\ pl' = l + 1 /\ why' = "update:accepted"
          ELSE /\ UNCHANGED <<st, qs, order>>
               /\ ok' = (Ev.o = "err" /\ (IF Sens THEN Ev.state = prev ELSE Ev.state.re = prev.re /\ Ev.state.ccys = prev.ccys))   \* refused: nothing at all changed
               /\ pl' = pl /\ why' = "update:refused"
       /\ l' = l + 1 /\ UNCHANGED h
\* derivative order: exponents untouched, values bit-identical to the previous state
SetOrd == /\ l > 0 /\ ok /\ l < Len(Hist[h].ev) /\ Ev.op = "set_order" /\ st.phase = "ready"
          /\ order' = Ev.order /\ UNCHANGED <<st, qs>>
          /\ ok' = (Ev.o = "ok" /\ StateOK(st, qs, Ev.order, Ev.state) /\ SameValues(Ev.state.re, prev.re))
          /\ pl' = l + 1 /\ why' = "set_order"
          /\ l' = l + 1 /\ UNCHANGED h
\* a history is finished when every event is consumed (or it was rejected); any other state without a successor
\* is reported by TLC as a deadlock, i.e. an event the specification has no action for
Finish == (l = Len(Hist[h].ev) \/ ~ok) /\ UNCHANGED vars
Next == New \/ Given \/ Upd \/ SetOrd \/ Finish
Accepted == ok
\* the judge is the DECLARATIVE layer: whenever the specification's construction ends ready its exponents are
\* the signed tree paths, and it rejects only quote sets that are not trees (checked here for every validated
\* market, i.e. also for the 6..12-currency markets the exhaustive model does not reach)
SpecConsistent == st # NoState =>
   /\ (st.phase = "ready" => ReadyCorrect(st))
   /\ (l = 1 /\ st.phase \in {"err_degenerate", "err_count", "err_empty"} => ~IsTreeQ(PairsOf(qs), Hist[h].ev[1].base))
===============================================================================
