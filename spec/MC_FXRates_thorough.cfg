CONSTANTS
  N = 5
  MaxQ = 4
  MaxOps = 2
INIT Init
NEXT Next
INVARIANTS ReadyOK DegenerateOnlyIfNotTree CountOnlyIfNotTree TreeAccepted SettleRejected RebuildSame
PROPERTIES IdxStable RefusedUnchanged QuotesStable
CHECK_DEADLOCK FALSE
