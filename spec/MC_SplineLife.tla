----------------------------- MODULE MC_SplineLife -----------------------------
(* (M) every history of up to MaxOps calls on one spline object: the step-by-step state *)
(* (Apply) against the declarative "last successful solve decides", refusals inert.     *)
EXTENDS SplineLife, TLC
CONSTANTS MaxOps
VARIABLES hist, c, last
vars == <<hist, c, last>>
Init == hist = <<>> /\ c = None /\ last = "-"
Step(o) == /\ Len(hist) < MaxOps
           /\ LET r == Apply(c, o) IN c' = r.c /\ last' = r.o
           /\ hist' = Append(hist, o)
Next == \E o \in Ops : Step(o)
Spec == Init /\ [][Next]_vars
\* invariants
LastWins == c = LastSolve(hist)
EvalNeedsSolve == (hist # <<>> /\ hist[Len(hist)].op = "eval") => (last = "ok" <=> \E i \in 1..Len(hist) : hist[i].op = "solve")
\* action property: whatever is refused, and whatever only looks, leaves the object as it was
Inert == [][(last' = "err" \/ hist'[Len(hist')].op \in {"eval", "copy", "json"}) => c' = c]_vars
\* every history, for the harness (shortest first)
RECURSIVE Hists(_)
Hists(n) == IF n = 0 THEN {<<>>} ELSE LET P == Hists(n - 1) IN P \cup {Append(h, o) : h \in {g \in P : Len(g) = n - 1}, o \in Ops}
===============================================================================
