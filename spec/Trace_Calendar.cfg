INIT Init
NEXT Next
INVARIANTS Accepted NoOow
CHECK_DEADLOCK FALSE
