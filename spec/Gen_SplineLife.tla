----------------------------- MODULE Gen_SplineLife -----------------------------
(* writes every history of 1..MaxOps calls (MC_SplineLife.Hists) for the harness to run on real spline objects *)
EXTENDS MC_SplineLife, Json, IOUtils, SequencesExt
CaseSeq == LET S == SetToSeq(Hists(MaxOps) \ {<<>>}) IN [i \in 1..Len(S) |-> [ops |-> S[i]]]
ASSUME ndJsonSerialize(IOEnv.OUT, CaseSeq)
ASSUME PrintT(<<"GEN", Len(CaseSeq)>>)
GInit == hist = <<>> /\ c = None /\ last = "-"
GNext == UNCHANGED vars
===============================================================================
