--------------------------------- MODULE MC_Curve ---------------------------------
(* (M) for C11 / C12.                                                                 *)
(*  mode "bisect": the recursion of index_left as a state machine (one level per      *)
(*    step) for every list length 2..MaxLen and every query rank (below, at, between, *)
(*    above: 2n+1 positions); loop invariant: the declarative answer stays inside the *)
(*    current slice; on termination Alg = Decl.                                       *)
(*  mode "order": every sequence of up to MaxSwitch derivative-order switches from    *)
(*    every initial order and node kind; node VALUES never change, 0 -> k tags the    *)
(*    i-th node '<id><i>', 1 <-> 2 keeps the names present, k -> 0 drops them.         *)
EXTENDS Curve, TLC
CONSTANTS MaxLen, MaxSwitch
VARIABLES mode, st, v, nodes, nsw, len
vars == <<mode, st, v, nodes, nsw, len>>
ListOf(n) == [k \in 1..n |-> 2 * k]
\* node kinds: float-valued, or dual-valued with custom names
MkNode(i, kind) == [d |-> 100 * i, v |-> IF kind = "F" THEN [k |-> "F", re |-> FOfRat(10 - i, 10)]
                                         ELSE [k |-> "D1", re |-> FOfRat(10 - i, 10), vars |-> <<"own" \o ToString(i)>>, d |-> <<FTwo>>]]
Init == \/ /\ mode = "bisect" /\ nodes = <<>> /\ nsw = 0
           /\ len \in 2..MaxLen /\ st = ILStart(ListOf(len)) /\ v \in 1..(2 * len + 1)
        \/ /\ mode = "order" /\ st = [none |-> TRUE] /\ v = 0 /\ nsw = 0 /\ len = 3
           /\ \E kinds \in [1..3 -> {"F", "D"}], o \in 0..2 :
                nodes = [i \in 1..3 |-> [d |-> 100 * i, v |-> SetOrderNode(MkNode(i, kinds[i]).v, o, "crv", i - 1)]]
BisectStep == /\ mode = "bisect" /\ ~st.done /\ st' = ILStep(st, v) /\ UNCHANGED <<mode, v, nodes, nsw, len>>
Switch(o) == /\ mode = "order" /\ nsw < MaxSwitch /\ nsw' = nsw + 1
             /\ nodes' = [i \in 1..Len(nodes) |-> [d |-> nodes[i].d, v |-> SetOrderNode(nodes[i].v, o, "crv", i - 1)]]
             /\ UNCHANGED <<mode, st, v, len>>
Next == BisectStep \/ \E o \in 0..2 : Switch(o)
\* ---- bisect properties
SliceInv == mode = "bisect" =>
               /\ st.lc + Len(st.lst) <= len /\ st.lst = SubSeq(ListOf(len), st.lc + 1, st.lc + Len(st.lst))
               /\ Len(st.lst) >= 2
               \* the declarative interval [want, want+1] lies inside the slice
               /\ LET want == IndexLeftDecl(ListOf(len), v) IN st.lc <= want /\ want + 1 <= st.lc + Len(st.lst) - 1
BisectDone == mode = "bisect" /\ st.done =>
               st.lc = IndexLeftDecl(ListOf(len), v) /\ st.lc = IndexLeftAlg(ListOf(len), v)
\* ---- order properties
ValuesStable == [][mode = "order" => \A i \in 1..Len(nodes) : nodes'[i].v.re = nodes[i].v.re /\ nodes'[i].d = nodes[i].d]_vars
Homogeneous == mode = "order" => \A i, j \in 1..Len(nodes) : nodes[i].v.k = nodes[j].v.k
NamesRule == [][mode = "order" /\ nsw' # nsw =>
                 \A i \in 1..Len(nodes) :
                   LET a == nodes[i].v b == nodes'[i].v IN
                   /\ (a.k = "F" /\ b.k # "F" => b.vars = <<Tag("crv", i - 1)>> /\ b.d = <<FOne>>)       \* 0 -> k tags in date order
                   /\ (a.k # "F" /\ b.k # "F" => b.vars = a.vars /\ b.d = a.d)                             \* 1 <-> 2 keeps names
                   /\ (b.k = "F" => DOMAIN b = {"k", "re"})]_vars                                          \* k -> 0 drops them
===============================================================================
