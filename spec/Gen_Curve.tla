--------------------------------- MODULE Gen_Curve ---------------------------------
(* (G) case families for the curve engine, written by TLC for replay into the crate:   *)
(*  supply : every interpolation rule x every supply order (permutation) of 2..MaxN    *)
(*           nodes x initial derivative order x constructor (CurveDF / Python-facing)  *)
(*           x node kinds (float-valued / dual-valued with custom names)               *)
(*  switch : every sequence of up to MaxSwitch order switches from every initial order *)
(*  bisect : every list length 2..MaxLen x every query rank for index_left             *)
EXTENDS Integers, Sequences, FiniteSets, SequencesExt, Json, IOUtils, TLC
CONSTANTS MaxN, MaxSwitch, MaxLen
Rules == {"linear", "log_linear", "linear_zero_rate", "flat_forward", "flat_backward"}
RECURSIVE Perms(_)
Perms(S) == IF S = {} THEN {<<>>} ELSE UNION {{<<x>> \o p : p \in Perms(S \ {x})} : x \in S}
RECURSIVE SeqsUpTo(_, _)
SeqsUpTo(S, n) == IF n = 0 THEN {<<>>} ELSE LET L == SeqsUpTo(S, n - 1) IN L \cup {Append(s, x) : s \in {t \in L : Len(t) = n - 1}, x \in S}
Supply == {[perm |-> p, rule |-> r, ad |-> a, via |-> v, kinds |-> k, sw |-> <<>>] :
             p \in UNION {Perms(1..n) : n \in 2..MaxN}, r \in Rules, a \in 0..2, v \in {"CurveDF", "Curve"}, k \in {<<"F">>, <<"F", "D">>}}
Switch == {[perm |-> <<2, 3, 1>>, rule |-> r, ad |-> a, via |-> v, kinds |-> k, sw |-> s] :
             r \in Rules, a \in 0..2, v \in {"CurveDF", "Curve"}, k \in {<<"F">>, <<"D", "F">>}, s \in SeqsUpTo(0..2, MaxSwitch) \ {<<>>}}
Bisect == {[n |-> n, rank |-> k] : n \in 2..MaxLen, k \in 0..(2 * MaxLen + 2)}
Family == IOEnv.FAMILY
Out == CASE Family = "supply" -> Supply [] Family = "switch" -> Switch [] Family = "bisect" -> {c \in Bisect : c.rank <= 2 * c.n + 1}
ASSUME ndJsonSerialize(IOEnv.OUT, SetToSeq(Out))
ASSUME PrintT(<<"GEN", Family, Cardinality(Out)>>)
VARIABLE x
Init == x = 0
Next == x' = x
===============================================================================
