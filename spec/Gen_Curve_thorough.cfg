CONSTANTS
  MaxN = 5
  MaxSwitch = 4
  MaxLen = 60
INIT Init
NEXT Next
CHECK_DEADLOCK FALSE
