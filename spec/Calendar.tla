-------------------------------- MODULE Calendar --------------------------------
(* Business-day calendars and the DateRoll operations of rust/calendars/dateroll.rs *)
(*                                                                                  *)
(* A calendar, as far as DateRoll is concerned, is two predicates on days: Bus      *)
(* (business day) and Stl (valid settlement day).  Here it is a record              *)
(*     c = [lo, hi, bus, stl]                                                       *)
(* where bus, stl are the SETS of days of the window lo..hi on which the predicate  *)
(* holds.  In model checking the sets come from a week mask and holiday sets; in    *)
(* trace validation they are the bitmaps the harness logged by calling              *)
(* is_bus_day / is_settlement on the real object.                                   *)
(*                                                                                  *)
(* Two layers.  The ALGORITHMIC layer (suffix Alg) transcribes what the code does,  *)
(* loop for loop.  The DECLARATIVE layer (suffix Decl) says what the properties     *)
(* C04 / C05 / C08 state.  MC_Calendar checks Alg = Decl exhaustively on small      *)
(* windows; Trace_Calendar judges recorded executions against Decl.                 *)
(*                                                                                  *)
(* A search that leaves the window yields NoDate, which propagates; the trace spec  *)
(* counts such events as out-of-window (the harness leaves generous margins so this *)
(* does not happen, and a non-zero count is reported).                              *)
EXTENDS DateArith, Sequences, FiniteSets

NoDate == -999999
Mods == {"Act", "F", "P", "ModF", "ModP"}

Bus(c, d) == d \in c.bus
Stl(c, d) == d \in c.stl
InWin(c, d) == c.lo <= d /\ d <= c.hi
Elig(c, d, s) == Bus(c, d) /\ (s => Stl(c, d))

\* ------------------------------------------------------------------ algorithmic layer
RECURSIVE FwdAlg(_, _), BwdAlg(_, _), FwdSetAlg(_, _), BwdSetAlg(_, _)
\* roll_forward_bus_day: while !is_bus_day(d) { d += 1 }
FwdAlg(c, d) == IF d = NoDate \/ ~InWin(c, d) THEN NoDate ELSE IF Bus(c, d) THEN d ELSE FwdAlg(c, d + 1)
BwdAlg(c, d) == IF d = NoDate \/ ~InWin(c, d) THEN NoDate ELSE IF Bus(c, d) THEN d ELSE BwdAlg(c, d - 1)
\* roll_forward_settled_bus_day: x = fwd(d); while !settle(x) { x = fwd(x + 1) }
FwdSetAlg(c, d) == LET x == FwdAlg(c, d) IN
                   IF x = NoDate THEN NoDate ELSE IF Stl(c, x) THEN x ELSE FwdSetAlg(c, x + 1)
BwdSetAlg(c, d) == LET x == BwdAlg(c, d) IN
                   IF x = NoDate THEN NoDate ELSE IF Stl(c, x) THEN x ELSE BwdSetAlg(c, x - 1)
F_(c, d, s) == IF s THEN FwdSetAlg(c, d) ELSE FwdAlg(c, d)
P_(c, d, s) == IF s THEN BwdSetAlg(c, d) ELSE BwdAlg(c, d)
\* the code compares month NUMBERS (new_date.month() != date.month())
ModFAlg(c, d, s) == LET x == F_(c, d, s) IN
                    IF x = NoDate THEN NoDate ELSE IF Month(x) # Month(d) THEN P_(c, d, s) ELSE x
ModPAlg(c, d, s) == LET x == P_(c, d, s) IN
                    IF x = NoDate THEN NoDate ELSE IF Month(x) # Month(d) THEN F_(c, d, s) ELSE x
RollAlg(c, d, m, s) == CASE m = "Act"  -> d
                         [] m = "F"    -> F_(c, d, s)
                         [] m = "P"    -> P_(c, d, s)
                         [] m = "ModF" -> ModFAlg(c, d, s)
                         [] m = "ModP" -> ModPAlg(c, d, s)

\* add_bus_days: counter loop, then settlement roll in the direction of the sign (forward for 0)
RECURSIVE StepsAlg(_, _, _)
StepsAlg(c, d, n) == IF d = NoDate THEN NoDate
                     ELSE IF n = 0 THEN d
                     ELSE IF n > 0 THEN StepsAlg(c, FwdAlg(c, d + 1), n - 1)
                     ELSE StepsAlg(c, BwdAlg(c, d - 1), n + 1)
Err == -888888          \* the call returned Err(..)
AddBusDaysAlg(c, d, n, s) ==
  IF ~Bus(c, d) THEN Err
  ELSE LET x == StepsAlg(c, d, n) IN
       IF ~s THEN x ELSE IF n < 0 THEN BwdSetAlg(c, x) ELSE FwdSetAlg(c, x)
LagAlg(c, d, n, s) ==
  IF Bus(c, d) THEN AddBusDaysAlg(c, d, n, s)
  ELSE IF n = 0 THEN FwdAlg(c, d)
  ELSE IF n < 0 THEN LET p == BwdAlg(c, d) IN IF p = NoDate THEN NoDate ELSE AddBusDaysAlg(c, p, n + 1, s)
  ELSE LET f == FwdAlg(c, d) IN IF f = NoDate THEN NoDate ELSE AddBusDaysAlg(c, f, n - 1, s)
AddDaysAlg(c, d, n, m, s) == RollAlg(c, d + n, m, s)
RECURSIVE RangeAlg(_, _, _, _)
ErrSeq == <<Err>>            \* sequence-typed sentinels (TLC will not compare a sequence with an integer)
NoSeq  == <<NoDate>>
RangeAlg(c, cur, b, acc) == IF cur = NoDate THEN NoSeq
                            ELSE IF cur > b THEN acc
                            ELSE RangeAlg(c, FwdAlg(c, cur + 1), b, Append(acc, cur))
BusDateRangeAlg(c, a, b) == IF ~Bus(c, a) \/ ~Bus(c, b) THEN ErrSeq ELSE RangeAlg(c, a, b, <<>>)

\* ------------------------------------------------------------------ declarative layer
\* first eligible date on or after d / last on or before d
Min(S) == CHOOSE x \in S : \A y \in S : x <= y
Max(S) == CHOOSE x \in S : \A y \in S : x >= y
FwdDecl(c, d, s) == LET S == {x \in d..c.hi : Elig(c, x, s)} IN IF S = {} THEN NoDate ELSE Min(S)
BwdDecl(c, d, s) == LET S == {x \in c.lo..d : Elig(c, x, s)} IN IF S = {} THEN NoDate ELSE Max(S)
\* "... unless it lies in a different calendar month" : (year, month)
RollDecl(c, d, m, s) ==
  LET f == FwdDecl(c, d, s) p == BwdDecl(c, d, s) IN
  CASE m = "Act"  -> d
    [] m = "F"    -> f
    [] m = "P"    -> p
    [] m = "ModF" -> IF f = NoDate THEN NoDate ELSE IF YM(f) # YM(d) THEN p ELSE f
    [] m = "ModP" -> IF p = NoDate THEN NoDate ELSE IF YM(p) # YM(d) THEN f ELSE p

\* the date with exactly |n| business days in (d, x] resp. [x, d), x itself a business day
NthBusAfterCard(c, d, n)  == LET S == {x \in (d + 1)..c.hi : Bus(c, x) /\ Cardinality({y \in (d + 1)..x : Bus(c, y)}) = n}
                             IN IF S = {} THEN NoDate ELSE Min(S)
NthBusBeforeCard(c, d, n) == LET S == {x \in c.lo..(d - 1) : Bus(c, x) /\ Cardinality({y \in x..(d - 1) : Bus(c, y)}) = n}
                             IN IF S = {} THEN NoDate ELSE Max(S)
\* the same date by enumeration "the n-th business day strictly after / before d" - linear instead of
\* quadratic, used when validating long traces; MC_Calendar checks that the two formulations agree
RECURSIVE NthFrom(_, _, _, _)
NthFrom(c, x, n, dir) == IF ~InWin(c, x) THEN NoDate
                         ELSE IF Bus(c, x) THEN (IF n = 1 THEN x ELSE NthFrom(c, x + dir, n - 1, dir))
                         ELSE NthFrom(c, x + dir, n, dir)
NthBusAfter(c, d, n)  == NthFrom(c, d + 1, n, 1)
NthBusBefore(c, d, n) == NthFrom(c, d - 1, n, -1)
AddBusDaysDecl(c, d, n, s) ==
  IF ~Bus(c, d) THEN Err
  ELSE LET x == IF n = 0 THEN d ELSE IF n > 0 THEN NthBusAfter(c, d, n) ELSE NthBusBefore(c, d, -n) IN
       IF x = NoDate THEN NoDate
       ELSE IF ~s THEN x ELSE IF n < 0 THEN BwdDecl(c, x, TRUE) ELSE FwdDecl(c, x, TRUE)
\* Lag: from a non-business day the count starts at the neighbouring business day in the
\* direction of travel.  The set of admissible answers has more than one element only in the
\* two corner cells the property leaves open (DESIGN 5/C05).
LagDeclSet(c, d, n, s) ==
  IF Bus(c, d) THEN {AddBusDaysDecl(c, d, n, s)}
  ELSE IF n = 0 THEN {FwdDecl(c, d, FALSE)} \cup (IF s THEN {FwdDecl(c, d, TRUE)} ELSE {})
  ELSE IF n > 0 THEN LET x == NthBusAfter(c, d, n) IN
                     {IF x = NoDate THEN NoDate ELSE IF s THEN FwdDecl(c, x, TRUE) ELSE x}
  ELSE LET x == NthBusBefore(c, d, -n) IN
       IF x = NoDate THEN {NoDate}
       ELSE IF ~s THEN {x}
       ELSE {BwdDecl(c, x, TRUE)} \cup (IF n = -1 THEN {FwdDecl(c, x, TRUE)} ELSE {})
AddDaysDecl(c, d, n, m, s) == RollDecl(c, d + n, m, s)
RECURSIVE SortedSeq(_, _)
SortedSeq(S, acc) == IF S = {} THEN acc ELSE LET m == Min(S) IN SortedSeq(S \ {m}, Append(acc, m))
BusDateRangeDecl(c, a, b) == IF ~Bus(c, a) \/ ~Bus(c, b) THEN ErrSeq
                             ELSE SortedSeq({x \in a..b : Bus(c, x)}, <<>>)

\* ------------------------------------------------------------------ month arithmetic (C08)
\* RollDay values: [k |-> "Unspecified"], [k |-> "Int", day |-> 1..31], [k |-> "EoM"], "SoM", "IMM"
TruncDiv(a, b) == IF a >= 0 THEN a \div b ELSE -((-a) \div b)      \* Rust's `/` on i32, b > 0
Signum(a) == IF a > 0 THEN 1 ELSE IF a < 0 THEN -1 ELSE 0
Abs(a) == IF a < 0 THEN -a ELSE a
\* get_imm: table on the weekday of the 1st, exactly as coded
ImmAlg(y, m) == LET w == Weekday(FirstOfMonth(y, m)) IN
  DaysFromCivil(y, m, CASE w = 0 -> 17 [] w = 1 -> 16 [] w = 2 -> 15 [] w = 3 -> 21
                        [] w = 4 -> 20 [] w = 5 -> 19 [] w = 6 -> 18)
\* the third Wednesday: the Wednesday among the 15th..21st
ImmDecl(y, m) == CHOOSE x \in DaysFromCivil(y, m, 15)..DaysFromCivil(y, m, 21) : Weekday(x) = 2
\* get_roll_by_day: step down from the requested day until the date exists
RECURSIVE RollByDayAlg(_, _, _)
RollByDayAlg(y, m, day) == IF day <= DaysInMonth(y, m) THEN DaysFromCivil(y, m, day)
                           ELSE RollByDayAlg(y, m, day - 1)
GetRollAlg(y, m, r) == CASE r.k = "Int" -> RollByDayAlg(y, m, r.day)
                         [] r.k = "EoM" -> RollByDayAlg(y, m, 31)
                         [] r.k = "SoM" -> RollByDayAlg(y, m, 1)
                         [] r.k = "IMM" -> ImmAlg(y, m)
MinI(a, b) == IF a < b THEN a ELSE b
GetRollDecl(y, m, r) == CASE r.k = "Int" -> DaysFromCivil(y, m, MinI(r.day, DaysInMonth(y, m)))
                          [] r.k = "EoM" -> LastOfMonth(y, m)
                          [] r.k = "SoM" -> FirstOfMonth(y, m)
                          [] r.k = "IMM" -> ImmDecl(y, m)
\* add_months before adjustment, as coded: years by truncating division, remainder, carry/borrow
AddMonthsRawAlg(d, months, r) ==
  LET cv == CivilFromDays(d)
      r_ == IF r.k = "Unspecified" THEN [k |-> "Int", day |-> cv[3]] ELSE r
      yr0 == TruncDiv(Abs(months), 12) * Signum(months)
      rem == months - yr0 * 12
      nm0 == cv[2] + rem
      yr  == IF nm0 <= 0 THEN yr0 - 1 ELSE IF nm0 >= 13 THEN yr0 + 1 ELSE yr0
      nm1 == IF nm0 <= 0 \/ nm0 >= 13 THEN nm0 % 12 ELSE nm0        \* rem_euclid(12)
      nm  == IF nm1 = 0 THEN 12 ELSE nm1
  IN GetRollAlg(cv[1] + yr, nm, r_)
\* ... and as the property states it: the month exactly `months` away, day = roll day capped
AddMonthsRawDecl(d, months, r) ==
  LET cv == CivilFromDays(d)
      tot == cv[1] * 12 + (cv[2] - 1) + months
      r_ == IF r.k = "Unspecified" THEN [k |-> "Int", day |-> cv[3]] ELSE r
  IN GetRollDecl(tot \div 12, (tot % 12) + 1, r_)
AddMonthsAlg(c, d, months, m, r, s)  == RollAlg(c, AddMonthsRawAlg(d, months, r), m, s)
AddMonthsDecl(c, d, months, m, r, s) == RollDecl(c, AddMonthsRawDecl(d, months, r), m, s)
IsImmDecl(d) == LET cv == CivilFromDays(d) IN d = ImmDecl(cv[1], cv[2])
IsEomDecl(d) == LET cv == CivilFromDays(d) IN cv[3] = DaysInMonth(cv[1], cv[2])

\* ------------------------------------------------------------------ calendars from masks and holidays
\* a plain calendar: week mask (set of non-working weekdays) and holiday set
CalOf(lo, hi, mask, hols) ==
  [lo |-> lo, hi |-> hi,
   bus |-> {d \in lo..hi : Weekday(d) \notin mask /\ d \notin hols},
   stl |-> lo..hi]
\* a union: business iff business in every member; settles iff business in every settlement calendar
\* members / settle : sequences of [mask, hols]
UnionOf(lo, hi, members, settle) ==
  [lo |-> lo, hi |-> hi,
   bus |-> {d \in lo..hi : \A i \in 1..Len(members) : Weekday(d) \notin members[i].mask /\ d \notin members[i].hols},
   stl |-> {d \in lo..hi : \A i \in 1..Len(settle) : Weekday(d) \notin settle[i].mask /\ d \notin settle[i].hols}]
===============================================================================
