----------------------------- MODULE Trace_Fixings ------------------------------
(* C07: each overnight-rate fixing history shipped with the library, validated as a *)
(* HISTORY of its calendar.  State: which history, how many publications consumed.  *)
(* Publish consumes the next recorded publication date; the step is correct only if *)
(* that date is the NEXT business day after the previous publication, so a missing  *)
(* and an extra business day both reject the trace at that date.  The calendar is   *)
(* the projection of the real object (bitmap of is_bus_day over the history's span).*)
EXTENDS DateArith, Sequences, FiniteSets, Json, IOUtils, TLC
Rec == ndJsonDeserialize(IOEnv.TRACE)
P2 == <<1, 2, 4, 8, 16, 32, 64, 128, 256, 512, 1024, 2048, 4096, 8192, 16384, 32768, 65536, 131072, 262144,
        524288, 1048576, 2097152, 4194304, 8388608, 16777216, 33554432, 67108864, 134217728, 268435456, 536870912>>
Bit(w, b) == (w \div P2[b + 1]) % 2 = 1
IsBus(e, d) == d >= e.w0 /\ d < e.w0 + e.n /\ Bit(e.bus[((d - e.w0) \div 30) + 1], (d - e.w0) % 30)
\* next business day strictly after d (searching at most 60 days, the assumed longest closure)
NextBus(e, d) == LET S == {x \in (d + 1)..(d + 60) : IsBus(e, x)} IN
                 IF S = {} THEN 0 ELSE CHOOSE x \in S : \A z \in S : x <= z
VARIABLES h, pos, ok
vars == <<h, pos, ok>>
\* (the library's own stepping must reproduce the history too: add_bus_days(d, 1) from each publication is the next
\*  publication, and bus_date_range over the span is the list of publications - a business-day search that gives up
\*  inside a long closure shows here and nowhere in the day-by-day bitmap)
Init == /\ h \in 1..Len(Rec) /\ pos = 1
        /\ ok = (IsBus(Rec[h], Rec[h].dates[1]) /\ ("range_same" \in DOMAIN Rec[h] => Rec[h].range_same))   \* the first publication is a business day
Publish == /\ pos < Len(Rec[h].dates)
           /\ pos' = pos + 1
           /\ ok' = (ok /\ Rec[h].dates[pos + 1] = NextBus(Rec[h], Rec[h].dates[pos])
                         /\ ("nxt" \in DOMAIN Rec[h] => Rec[h].nxt[pos] = Rec[h].dates[pos + 1]))
           /\ UNCHANGED h
Next == Publish
Accepted == ok
\* the calendar has no business day between publications other than the publications themselves,
\* and the history ends on the last day of its span
Complete == pos = Len(Rec[h].dates) => Rec[h].dates[pos] = Rec[h].w0 + Rec[h].n - 1
===============================================================================
