\* 2024-01-30 = day 19752 ; window straddles the January/February month end
CONSTANTS
  W0 = 19752
  WLen = 5
  SOff = 1
  SLen = 3
  Masks = {{5, 6}, {4, 5}, {6}}
  Margin = 24
  NMax = 3
INIT Init
NEXT Next
INVARIANTS InWindow SeekInv CountInv RollDone AddDone AddErr ErrAgree DerivedAgree
CHECK_DEADLOCK FALSE
