SPECIFICATION Spec
CONSTANT MaxOps = 4
INVARIANT LastWins
INVARIANT EvalNeedsSolve
PROPERTY Inert
CHECK_DEADLOCK FALSE
