------------------------------- MODULE SplineLife -------------------------------
(* The LIFE of one PPSpline object (rust/splines/spline.rs, and the Python-facing     *)
(* classes of spline_py.rs): a spline is made without coefficients; `csolve` gives it   *)
(* coefficients or refuses; everything that evaluates needs coefficients; copies and    *)
(* stored documents carry the state along.                                              *)
(*                                                                                      *)
(* Abstract state: c = <<>> (no coefficients) or <<d, mode>> - "the coefficients a      *)
(* FRESH spline on the same knots gets from data set d solved in that mode".  That the   *)
(* coefficients of a fresh solve are RIGHT (collocation, end conditions, polynomial     *)
(* reproduction, sensitivities) is Trace_BSpline.SplineOK; this module is about what a   *)
(* HISTORY of calls may do to the object:                                               *)
(*   - a successful solve replaces the coefficients whatever was there before           *)
(*     (the result never depends on the previous state);                                *)
(*   - a refused solve (too few sites, too many without least squares, data of another  *)
(*     length) changes nothing;                                                         *)
(*   - evaluation is refused exactly while c = <<>>, and never changes anything;         *)
(*   - a copy / a document written and read back is an equal object in the same state.  *)
EXTENDS Integers, Sequences
Data  == {1, 2}
Modes == {"exact", "lsq"}
\* the refused calls: sites short by one (with / without least squares allowed), surplus sites without least
\* squares, data shorter than the sites (square and least-squares shaped)
Bad   == {"few", "few_lsq", "many", "ylen", "ylen_lsq"}
Ops == [op : {"solve"}, d : Data, mode : Modes] \cup [op : {"bad"}, why : Bad]
       \cup [op : {"eval"}] \cup [op : {"copy"}] \cup [op : {"json"}]
None == <<>>
Solved(c) == c # None
\* outcome and next state of one call
Apply(c, o) ==
  CASE o.op = "solve" -> [c |-> <<o.d, o.mode>>, o |-> "ok"]
    [] o.op = "bad"   -> [c |-> c, o |-> "err"]
    [] o.op = "eval"  -> [c |-> c, o |-> IF Solved(c) THEN "ok" ELSE "err"]
    [] o.op = "copy"  -> [c |-> c, o |-> "ok"]
    [] o.op = "json"  -> [c |-> c, o |-> "ok"]
\* the state after a whole history, declaratively: the last successful solve decides
LastSolve(h) == LET S == {i \in 1..Len(h) : h[i].op = "solve"} IN
                IF S = {} THEN None ELSE LET i == CHOOSE i \in S : \A j \in S : j <= i IN <<h[i].d, h[i].mode>>
===============================================================================
