CONSTANTS
  MaxLen = 12
  MaxSwitch = 4
INIT Init
NEXT Next
INVARIANTS SliceInv BisectDone Homogeneous
PROPERTIES ValuesStable NamesRule
CHECK_DEADLOCK FALSE
