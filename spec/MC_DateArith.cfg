INIT Init
NEXT Next
INVARIANT Inv
CHECK_DEADLOCK FALSE
