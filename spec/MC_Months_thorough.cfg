CONSTANTS
  Years = {1999, 2000, 2023, 2024, 2100, 2199}
  MonthsSet = {1,2,3,4,5,6,7,8,9,10,11,12}
  Offsets <- OffsThorough
INIT Init
NEXT Next
INVARIANTS AddMonthsAgree MonthFacts
CHECK_DEADLOCK FALSE
