------------------------------ MODULE Trace_BSpline ------------------------------
(* (V) for C14 / C15.                                                                  *)
(* "basis" events: every (i, m, x) value returned by bsplev_single_f64 /               *)
(*   bspldnev_single_f64 against the piecewise-polynomial definition of BSpline.tla,   *)
(*   plus non-negativity, local support and partition of unity on the RECORDED values; *)
(*   the Dual / Dual2 entry points of the same functions by the chain rule.           *)
(* "spline" events: a solved PPSpline of any of the three types:                       *)
(*   - interpolation at the interior sites and the derivative conditions at the two    *)
(*     end sites (collocation, recomputed from the logged coefficients);               *)
(*   - every evaluation = sum_i c_i * D^m B_i(x) computed with DualAlgebra, for all    *)
(*     three abscissa types (chain rule through the basis derivatives), the two mixed  *)
(*     first/second-order cells being refused with an error;                           *)
(*   - polynomial data of degree < k are reproduced in value and every derivative;     *)
(*   - the sensitivity to datum j is the spline solved on the unit data e_j;           *)
(*   - mismatched site counts are errors.                                              *)
EXTENDS BSpline, DualAlgebra, Json, IOUtils, TLC
Rec == ndJsonDeserialize(IOEnv.TRACE)
Prop == IOEnv.PROP
Strip(W) == [re |-> W.re, g |-> W.g, h |-> W.h]

\* ---------------------------------------------------------------- C14
BasisOK(e) ==
  LET t == e.t k == e.k n == Len(t) - k IN
  /\ e.o = "ok" /\ Len(e.vals) = n
  /\ \A i \in 0..(n - 1), q \in 1..Len(e.xs) :
        LET x == e.xs[q] IN
        /\ \A m \in 0..(k + 1) :
             LET want == DBasis(t, i, k, m, x) got == e.vals[i + 1][m + 1][q] IN
             /\ FClose(got, want.v, want.s)
             /\ (m >= k => got = FZ \/ FEq(got, FZ))                           \* zero for m >= k
        /\ e.m0_via_deriv[i + 1][q] = e.vals[i + 1][1][q]
        \* the vector entry point, fed the points in reverse order, returns the single-point values in that order
        /\ ("vec_rev" \in DOMAIN e => \A m \in 0..1 : /\ Len(e.vec_rev[i + 1][m + 1]) = Len(e.xs)
                                                       /\ e.vec_rev[i + 1][m + 1][Len(e.xs) + 1 - q] = e.vals[i + 1][m + 1][q])
        /\ (InDomain(t, x) => FLe(FZ, e.vals[i + 1][1][q]))                      \* non-negative
        /\ ((FLt(x, Kn(t, i)) \/ FLt(Kn(t, i + k), x)) => FEq(e.vals[i + 1][1][q], FZ))   \* vanishes outside its k spans
  /\ \A q \in 1..Len(e.xs) : InDomain(t, e.xs[q]) =>
        FClose(FSumL([i \in 1..n |-> e.vals[i][1][q]]), FOne, FOne)             \* sums to one, right end point included
  \* the collocation matrix on all the sites (more sites than functions): row j, column i is B_i at site j
  /\ ("matrix" \in DOMAIN e => /\ Len(e.matrix) = Len(e.sites)
                              /\ \A j \in 1..Len(e.sites) : /\ Len(e.matrix[j]) = n
                                                            /\ \A i \in 0..(n - 1) : LET w == DBasis(t, i, k, 0, e.sites[j]) IN FClose(e.matrix[j][i + 1], w.v, w.s))
  \* ... and with derivative rows at the two ends: the first row is D^l B_i at the first site, the last row D^r B_i at the last
  /\ ("matrix_lr" \in DOMAIN e => \A x \in 1..Len(e.matrix_lr) :
        LET mx == e.matrix_lr[x] ns == Len(e.sites) IN
        \A i \in 0..(n - 1) : LET wf == DBasis(t, i, k, mx.l, e.sites[1]) wl == DBasis(t, i, k, mx.r, e.sites[ns]) IN
             FClose(mx.first[i + 1], wf.v, wf.s) /\ FClose(mx.last[i + 1], wl.v, wl.s))
  \* the Python-facing class on the unit-coefficient spline: a float abscissa gives D^m B_i through all three methods
  \* (first / second-order results carry no variables)
  /\ ("pyvals" \in DOMAIN e => \A r \in 1..Len(e.pyvals) :
        LET v == e.pyvals[r] w == DBasis(t, v.i, k, v.m, e.xs[v.q])
            kind == IF v.fn = "ppdnev_single" THEN "F" ELSE IF v.fn = "ppdnev_single_dual" THEN "D1" ELSE "D2"
        IN /\ IsNum(v.res) /\ v.res.k = kind /\ NamesOf(v.res) = {} /\ FClose(v.res.re, w.v, w.s))
  \* the Python-facing free functions bsplev_single / bspldnev_single are the core functions: for every basis index
  \* (the last included), every derivative order, the recorded value is the core function's, bit for bit
  /\ ("pyfree" \in DOMAIN e => \A r \in 1..Len(e.pyfree) :
        LET v == e.pyfree[r] IN v.o = "ok" /\ v.v = e.vals[v.i + 1][v.m + 1][v.q])

\* the dual-abscissa entry points: value D^m B_i(x), first order D^(m+1) B_i * dx, second order D^(m+1) B_i * d2x +
\* D^(m+2) B_i * dx dx^T (chain rule on the piecewise polynomial), kind and variable list of the abscissa kept
DualBasisOK(e) ==
  LET NS == {"x", "w"} IN
  \A q \in 1..Len(e.dvals) :
     LET r == e.dvals[q] xa == Abstract(r.x, NS)
         b0 == DBasis(e.t, r.i, e.k, r.m, r.x.re) b1 == DBasis(e.t, r.i, e.k, r.m + 1, r.x.re) b2 == DBasis(e.t, r.i, e.k, r.m + 2, r.x.re)
         W == [re |-> b0.v, g |-> [n \in NS |-> FMul(b1.v, xa.g[n])],
               h |-> [p \in NS \X NS |-> FAdd(FMul(b1.v, xa.h[p]), FMul(b2.v, FMul(xa.g[p[1]], xa.g[p[2]])))],
               sre |-> b0.s, sg |-> [n \in NS |-> FAbs(FMul(b1.s, xa.g[n]))],
               sh |-> [p \in NS \X NS |-> FAdd(FAbs(FMul(b1.s, xa.h[p])), FAbs(FMul(b2.s, FMul(xa.g[p[1]], xa.g[p[2]]))))]]
     IN /\ IsNum(r.res) /\ r.res.k = r.x.k /\ ShapeOK(r.res) /\ r.res.vars = r.x.vars
        /\ CloseTo(r.res, W, NS)
\* ---------------------------------------------------------------- C15
\* sum_i C_i * Bi  with  Bi = D^m B_i at a float abscissa (a constant) or at a dual abscissa (chain rule)
BasisNum(t, k, i, m, xa, isF, NS) ==
  IF isF THEN LET b == DBasis(t, i, k, m, xa.re) IN [W |-> Const(b.v, NS), s |-> b.s]
  ELSE LET b0 == DBasis(t, i, k, m, xa.re) b1 == DBasis(t, i, k, m + 1, xa.re) b2 == DBasis(t, i, k, m + 2, xa.re) IN
       [W |-> Strip(Chain(xa, b0.v, b1.v, b2.v, NS)), s |-> b0.s]
RECURSIVE EvalAcc(_, _, _, _, _, _, _, _, _)
EvalAcc(t, k, C, m, xa, isF, i, acc, NS) ==
  IF i >= Len(C) THEN acc
  ELSE LET b == BasisNum(t, k, i, m, xa, isF, NS)
           term == Mul(C[i + 1], b.W, NS)
       IN EvalAcc(t, k, C, m, xa, isF, i + 1,
                  [re |-> FAdd(acc.re, term.re), g |-> [n \in NS |-> FAdd(acc.g[n], term.g[n])], h |-> [p \in NS \X NS |-> FAdd(acc.h[p], term.h[p])],
                   sre |-> FAdd(acc.sre, FAbs(FMul(C[i + 1].re, b.s))), sg |-> [n \in NS |-> FAdd(acc.sg[n], FAdd(term.sg[n], FAbs(FMul(C[i + 1].g[n], b.s))))],
                   sh |-> [p \in NS \X NS |-> FAdd(acc.sh[p], FAdd(term.sh[p], FAbs(FMul(C[i + 1].h[p], b.s))))]], NS)
ZeroW(NS) == [re |-> FZ, g |-> [n \in NS |-> FZ], h |-> [p \in NS \X NS |-> FZ], sre |-> FZ, sg |-> [n \in NS |-> FZ], sh |-> [p \in NS \X NS |-> FZ]]
RankK(k) == IF k = "F" THEN 0 ELSE IF k = "D1" THEN 1 ELSE 2
\* the 3 x 3 table: a first-order spline refuses a second-order abscissa and vice versa
Refused(sk, xk) == (sk = "D1" /\ xk = "D2") \/ (sk = "D2" /\ xk = "D1")
RECURSIVE PolyDeriv(_, _)
PolyDeriv(p, m) == PDerivN(p, m)
EvalOK(e, v, NS) ==
  LET xk == v.x.k IN
  IF Refused(e.kind, xk) THEN v.o = "err"                                    \* mixing orders is refused, never computed
  ELSE /\ v.o = "ok" /\ IsNum(v.res)
       /\ LET C == [i \in 1..Len(e.c) |-> Abstract(e.c[i], NS)]
              xa == Abstract(v.x, NS)
              W == EvalAcc(e.t, e.k, C, v.m, xa, xk = "F", 0, ZeroW(NS), NS)
              wantkind == KindOfRank(MaxI(RankK(e.kind), RankK(xk)))
          IN /\ v.res.k = wantkind /\ ShapeOK(v.res)
             /\ CloseTo(v.res, W, NS)
             \* polynomial reproduction: the spline and all its derivatives equal the generating polynomial
             \* (the coefficients come out of ONE linear solve, which is accurate relative to the LARGEST of them, not to
             \*  each: where the data span orders of magnitude - a cubic over decades on a seconds axis - the small
             \*  coefficients carry an error of 1e-16 x condition x the largest one, so the scale of this comparison also
             \*  counts  max|c| * sum_i |D^m B_i(x)|;  collocation and evaluation above keep their local scales)
             /\ (e.poly # <<>> /\ ~e.lsq => LET p == PDerivN(e.poly, v.m)
                                              cmax == FMaxAbsSeq([i \in 1..Len(e.c) |-> e.c[i].re])
                                              WM == EvalAcc(e.t, e.k, [i \in 1..Len(C) |-> Const(cmax, NS)], v.m, Const(v.x.re, NS), TRUE, 0, ZeroW(NS), NS) IN
                    FClose(v.res.re, PEval(p, v.x.re), FAdd(FAdd(PAbsEval(p, v.x.re), W.sre), WM.sre)))
\* ---------------------------------------------------------------- the Python-facing spline classes (spline_py.rs)
\* PPSplineF64 / PPSplineDual / PPSplineDual2: three method families x three abscissa kinds.
\*   ppev_single / ppdnev_single            a float abscissa only (anything else raises TypeError); result of the spline's kind
\*   ppev_single_dual / ppdnev_single_dual   float (promoted to a constant) or first order; a second-order abscissa or a
\*                                           second-order spline raises TypeError; result first order
\*   ppev_single_dual2 / ppdnev_single_dual2 symmetric
\* the ppev_* names are the m = 0 case; values are those of the core evaluation (EvalAcc)
SameStoredNum(x, y) == /\ x.k = y.k /\ x.re = y.re /\ (x.k # "F" => x.vars = y.vars /\ x.d = y.d) /\ (x.k = "D2" => x.raw2 = y.raw2)
PyFam(f) == IF f \in {"ppev_single", "ppdnev_single"} THEN "plain" ELSE IF f \in {"ppev_single_dual", "ppdnev_single_dual"} THEN "dual" ELSE "dual2"
PyEvalOK(e, v, C, NS) ==
  LET fam == PyFam(v.fn) xk == v.x.k
      m == IF v.fn \in {"ppev_single", "ppev_single_dual", "ppev_single_dual2"} THEN 0 ELSE v.m
      refuse == CASE fam = "plain" -> xk # "F"
                  [] fam = "dual" -> xk = "D2" \/ e.kind = "D2"
                  [] fam = "dual2" -> xk = "D1" \/ e.kind = "D1"
      kind == CASE fam = "plain" -> e.kind [] fam = "dual" -> "D1" [] fam = "dual2" -> "D2"
  IN IF refuse THEN v.o = "TypeError"
     ELSE /\ v.o = "ok" /\ IsNum(v.res) /\ v.res.k = kind /\ ShapeOK(v.res)
          /\ CloseTo(v.res, EvalAcc(e.t, e.k, C, m, Abstract(v.x, NS), xk = "F", 0, ZeroW(NS), NS), NS)
PyOK(e, C, NS) ==
  LET p == e.py IN
  /\ ~("fail" \in DOMAIN p)
  /\ p.n = e.n /\ p.k = e.k /\ p.t = e.t /\ p.copy_eq                               \* a copy equals its original
  /\ Len(p.c) = Len(e.c) /\ \A i \in 1..Len(e.c) : SameStoredNum(p.c[i], e.c[i])      \* same solve, bit for bit
  /\ \A q \in 1..Len(p.ev) : PyEvalOK(e, p.ev[q], C, NS)
  /\ Len(p.ppev) = Len(p.vx) /\ Len(p.ppdnev1) = Len(p.vx) /\ Len(p.bsplev0) = Len(p.vx) /\ Len(p.bspldnev_last1) = Len(p.vx)
  /\ \A q \in 1..Len(p.vx) :
        LET x == Const(p.vx[q], NS)
            W0 == EvalAcc(e.t, e.k, C, 0, x, TRUE, 0, ZeroW(NS), NS) W1 == EvalAcc(e.t, e.k, C, 1, x, TRUE, 0, ZeroW(NS), NS)
            b0 == DBasis(e.t, 0, e.k, 0, p.vx[q]) b1 == DBasis(e.t, e.n - 1, e.k, 1, p.vx[q])
        IN /\ p.ppev[q].k = e.kind /\ CloseTo(p.ppev[q], W0, NS)                      \* the vector methods, point by point
           /\ p.ppdnev1[q].k = e.kind /\ CloseTo(p.ppdnev1[q], W1, NS)
           /\ FClose(p.bsplev0[q], b0.v, b0.s) /\ FClose(p.bspldnev_last1[q], b1.v, b1.s)
SplineOK(e) ==
  LET n == e.n ntau == Len(e.tau) IN
  IF (ntau # n /\ ~(e.lsq /\ ntau > n)) \/ Len(e.y) # ntau THEN e.o = "err"           \* mismatched counts are reported as errors
  ELSE /\ e.o = "ok" /\ e.unsolved_eval_is_err /\ Len(e.c) = n
       /\ \A i \in 1..n : IsNum(e.c[i]) /\ e.c[i].k = e.kind /\ ShapeOK(e.c[i])
       /\ LET NS == UNION {NamesOf(e.c[i]) : i \in 1..n} \cup UNION {NamesOf(e.y[j]) : j \in 1..Len(e.y)} \cup {"x", "w"}
              C == [i \in 1..n |-> Abstract(e.c[i], NS)]
          IN \* collocation: interior rows interpolate, the first / last row carry the end conditions
             /\ (~e.lsq => \A r \in 1..ntau :
                    LET m == IF r = 1 THEN e.left_n ELSE IF r = ntau THEN e.right_n ELSE 0
                        W == EvalAcc(e.t, e.k, C, m, Const(e.tau[r], NS), TRUE, 0, ZeroW(NS), NS)
                        Y == Abstract(e.y[r], NS)
                    IN /\ FClose(W.re, Y.re, FAdd(W.sre, FAbs(Y.re)))
                       /\ \A nm \in NS : FClose(W.g[nm], Y.g[nm], FAdd(W.sg[nm], FAbs(Y.g[nm])))
                       /\ \A p \in NS \X NS : FClose(W.h[p], Y.h[p], FAdd(W.sh[p], FAbs(Y.h[p]))))
             /\ \A q \in 1..Len(e.ev) : EvalOK(e, e.ev[q], NS)
             /\ ("py" \in DOMAIN e => PyOK(e, C, NS))
             \* sensitivity to datum j = the spline solved on the unit data e_j (which itself must collocate)
             /\ ("unit" \in DOMAIN e => \A j \in 1..Len(e.unit) :
                    LET U == [i \in 1..n |-> Const(e.unit[j][i], NS)] IN
                    /\ Len(e.unit[j]) = n
                    /\ \A r \in 1..ntau :
                         LET m == IF r = 1 THEN e.left_n ELSE IF r = ntau THEN e.right_n ELSE 0
                             W == EvalAcc(e.t, e.k, U, m, Const(e.tau[r], NS), TRUE, 0, ZeroW(NS), NS)
                         IN FClose(W.re, IF r = j THEN FOne ELSE FZ, FAdd(W.sre, FOne))
                    /\ \A q \in 1..Len(e.ev) :
                         LET v == e.ev[q] IN
                         (v.x.k = "F" /\ v.o = "ok" /\ v.fn = "ppdnev_single") =>
                            LET W == EvalAcc(e.t, e.k, U, v.m, Const(v.x.re, NS), TRUE, 0, ZeroW(NS), NS)
                                nm == "y" \o ToString(j - 1)
                            IN FClose(G(v.res, nm), W.re, FAdd(W.sre, FOne)))
\* one outermost call of bsplev_single_f64 / bspldnev_single_f64 recorded while the repository's own tests run
Basis1OK(e) == IF ~Admissible(e.t, e.k) \/ e.i + e.k >= Len(e.t) THEN TRUE          \* outside the property's quantifier: not judged
               ELSE LET want == DBasis(e.t, e.i, e.k, e.m, e.x) IN
                    FClose(e.val, want.v, want.s) /\ (e.m >= e.k => FEq(e.val, FZ))
EventOK(e) == IF e.op = "basis1" THEN (Prop = "C15" \/ Basis1OK(e)) ELSE IF e.op = "basis" THEN (Prop = "C15" \/ (BasisOK(e) /\ DualBasisOK(e))) ELSE (Prop = "C14" \/ SplineOK(e))
VARIABLES i, ok
vars == <<i, ok>>
Init == i \in 1..Len(Rec) /\ ok = EventOK(Rec[i])
Next == UNCHANGED vars
Accepted == ok
===============================================================================
