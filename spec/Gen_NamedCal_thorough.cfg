CONSTANTS
  Alphabet = {"tgt", "ldn", "fed", "xyz", ",", "|"}
  MaxLen = 6
INIT GInit
NEXT GNext
CHECK_DEADLOCK FALSE
