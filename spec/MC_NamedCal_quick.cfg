CONSTANTS
  Alphabet = {"tgt", "ldn", "fed", "xyz", ",", "|"}
  MaxLen = 5
INIT Init
NEXT Next
INVARIANTS GrammarAgree GrammarShape RuleTheorems
CHECK_DEADLOCK FALSE
