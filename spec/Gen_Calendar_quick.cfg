CONSTANTS
  W0 = 19752
  WLen = 5
  SOff = 1
  SLen = 3
  Masks = {{5, 6}, {4, 5}, {6}}
  Margin = 24
  NMax = 3
INIT GInit
NEXT GNext
CHECK_DEADLOCK FALSE
