------------------------------- MODULE MC_FXRates -------------------------------
(* (M) for C09 / C10: every quote sequence of 1..MaxQ ordered pairs over N           *)
(* currencies (under-, exactly-, over-specified, cyclic, duplicated and reversed     *)
(* duplicates all occur) x every base x consistent / inconsistent settlement;        *)
(* then up to MaxOps update / set-order operations from every ready market.          *)
(* The algorithm only sees index positions (base first, then first appearance), so   *)
(* initial states are restricted to sequences whose currencies first appear in       *)
(* increasing order - a sound N!-fold reduction.                                     *)
EXTENDS FXRates, TLC, SequencesExt
CONSTANTS N, MaxQ, MaxOps
Ccy == 1..N
Bases == {<<>>} \cup {<<c>> : c \in Ccy}
OPairs == {[l |-> a, r |-> b] : a \in Ccy, b \in Ccy} \ {[l |-> a, r |-> a] : a \in Ccy}

VARIABLES st,        \* construction / market state record of FXRates
          base, mixed,
          order,     \* derivative order of the stored matrix
          ver,       \* per quote: how many times its value was replaced
          nops, last
vars == <<st, base, mixed, order, ver, nops, last>>

Canonical(qs, b) == LET ix == IndexOf(qs, b) IN \A i \in 1..Len(ix) : ix[i] = i
QuoteSeqs == UNION {[1..m -> OPairs] : m \in 1..MaxQ}
SettleOf(qs, mx) == [k \in 1..Len(qs) |-> IF mx /\ k = Len(qs) /\ k > 1 THEN 1 ELSE 0]

Init == /\ base \in Bases /\ mixed \in BOOLEAN
        /\ \E qs \in QuoteSeqs : Canonical(qs, base) /\ st = Start(qs, base, SettleOf(qs, mixed))
        /\ order = 1 /\ ver = [k \in 1..Len(st.quotes) |-> 0] /\ nops = 0 /\ last = "new"

SolveStep == /\ st.phase = "solving" /\ st' = Step(st)
             /\ UNCHANGED <<base, mixed, order, ver, nops, last>>

\* candidate update lists: one existing pair, two existing pairs, a reversed pair, a pair never quoted
Updates == LET ex == {[l |-> st.quotes[k].l, r |-> st.quotes[k].r] : k \in 1..Len(st.quotes)} IN
           {<<p>> : p \in ex} \cup {<<p, q>> : p \in ex, q \in ex}
           \cup {<<[l |-> p.r, r |-> p.l]>> : p \in ex} \cup {<<p, [l |-> p.r, r |-> p.l]>> : p \in ex}
Update(upd) == /\ st.phase = "ready" /\ nops < MaxOps /\ nops' = nops + 1
               /\ IF KnownPairs(st, upd)
                  THEN /\ st' = Start(st.quotes, <<st.idx[1]>>, SettleOf(st.quotes, FALSE))     \* rebuilt through try_new
                       /\ ver' = [k \in DOMAIN ver |-> IF k \in Replaced(st, upd) THEN ver[k] + 1 ELSE ver[k]]
                       /\ order' = 1 /\ last' = "updated"
                  ELSE /\ last' = "refused" /\ UNCHANGED <<st, ver, order>>
               /\ UNCHANGED <<base, mixed>>
SetOrder(o) == /\ st.phase = "ready" /\ nops < MaxOps /\ nops' = nops + 1
               /\ order' = o /\ last' = "ordered"
               /\ UNCHANGED <<st, base, mixed, ver>>           \* rebuild and projection leave every exponent alone
Next == SolveStep \/ (\E u \in Updates : Update(u)) \/ (\E o \in 0..2 : SetOrder(o))
Spec == Init /\ [][Next]_vars /\ WF_vars(SolveStep)

\* ---- properties ---------------------------------------------------------------------
ReadyOK == st.phase = "ready" => ReadyCorrect(st)
DegenerateOnlyIfNotTree == st.phase = "err_degenerate" => ~IsTreeQ(st.quotes, base)
CountOnlyIfNotTree == st.phase = "err_count" => ~IsTreeQ(st.quotes, base)
\* a tree with consistent settlement is never rejected
TreeAccepted == IsTreeQ(st.quotes, base) /\ ~(mixed /\ Len(st.quotes) > 1) => st.phase \in {"solving", "ready"}
SettleRejected == mixed /\ Len(st.quotes) > 1 /\ st.phase # "err_count" => st.phase = "err_settle"
\* rebuilding a ready market from its own first currency reproduces it exactly (set_ad_order's rebuild arms, update)
RebuildSame == st.phase = "ready" => LET b == Build(st.quotes, <<st.idx[1]>>, SettleOf(st.quotes, FALSE)) IN
                                     b.phase = "ready" /\ b.fx = st.fx /\ b.idx = st.idx
\* the currency index is fixed at construction
IdxStable == [][st.idx # <<>> /\ st'.idx # <<>> => st'.idx = st.idx]_vars
RefusedUnchanged == [][last' = "refused" /\ nops' # nops => UNCHANGED <<st, order, ver>>]_vars
QuotesStable == [][st'.quotes = st.quotes]_vars
Terminates == <>(st.phase # "solving")
AlwaysResolves == []<>(st.phase # "solving")

\* ---- (G) -------------------------------------------------------------------------------
CaseSeq == SetToSeq({[quotes |-> qs, base |-> b, mixed |-> mx] :
                        qs \in {q \in QuoteSeqs : \E bb \in Bases : Canonical(q, bb)},
                        b \in Bases, mx \in BOOLEAN})
===============================================================================
