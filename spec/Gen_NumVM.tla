-------------------------------- MODULE Gen_NumVM --------------------------------
(* (G) Exhaustive program families for the NumVM, written by TLC as ndjson and        *)
(* replayed into the crate by `vharness numvm exec`.  The model's domain IS the test  *)
(* list:                                                                              *)
(*   layout : every ordered pair of duplicate-free variable lists over Names x        *)
(*            {separate Arcs, re-indexed onto the other's Arc, zero-padded superset}  *)
(*            x every binary operator, ==, the Vars operations x operand forms        *)
(*   read   : every stored list x every requested list (incl. an absent name)         *)
(*   kinds  : the 3 x 3 kind table of the generic container per operator, conversions *)
(*   order  : signed value pairs x layouts for comparisons, abs, %, sums, identities  *)
(*   py     : every name of the Python-facing method table x kind pairings x layouts   *)
EXTENDS FP, Sequences, FiniteSets, SequencesExt, Json, IOUtils, TLC
CONSTANTS Names, Absent

NameNum(nm) == CASE nm = "a" -> 1 [] nm = "b" -> 2 [] nm = "c" -> 3 [] nm = "e" -> 4 [] OTHER -> 5
RECURSIVE ListsUpTo(_)
ListsUpTo(n) == IF n = 0 THEN {<<>>}
                ELSE LET S == ListsUpTo(n - 1) IN S \cup {Append(s, x) : s \in {t \in S : Len(t) = n - 1}, x \in Names}
NoDup(s) == \A i, j \in 1..Len(s) : i # j => s[i] # s[j]
VarLists == {s \in ListsUpTo(Cardinality(Names)) : NoDup(s)}
SetOf(s) == {s[i] : i \in 1..Len(s)}
\* X followed by the names of Y not in X
UnionList(X, Y) == X \o SelectSeq(Y, LAMBDA n : n \notin SetOf(X))

\* distinct derivative values per (operand tag, name) and an ASYMMETRIC stored second-order array,
\* so that a mis-indexed reshuffle or a transposition is visible
DVal(tag, nm) == FOfRat(8 * tag + 2 * NameNum(nm) + 1, 8)
HVal(tag, n1, n2) == FOfRat(16 * tag + 4 * NameNum(n1) + NameNum(n2), 32)
Leaf(kind, tag, re, vars) ==
  IF kind = "D1" THEN [t |-> "D1", re |-> re, vars |-> vars, d |-> [i \in 1..Len(vars) |-> DVal(tag, vars[i])]]
  ELSE [t |-> "D2", re |-> re, vars |-> vars, d |-> [i \in 1..Len(vars) |-> DVal(tag, vars[i])],
        d2half |-> [i \in 1..Len(vars) |-> [j \in 1..Len(vars) |-> HVal(tag, vars[i], vars[j])]]]
LeafFrom(kind, tag, re, vars, from) ==
  LET l == Leaf(kind, tag, re, vars) IN
  IF kind = "D1" THEN [t |-> "D1from", re |-> re, vars |-> vars, d |-> l.d, from |-> from]
  ELSE [t |-> "D2from", re |-> re, vars |-> vars, d |-> l.d, d2half |-> l.d2half, from |-> from]
LeafF(re) == [t |-> "F", re |-> re]

Forms == {<<"r", "r">>, <<"v", "r">>, <<"r", "v">>, <<"v", "v">>}
BinOps == {"add", "sub", "mul", "div", "rem"}
Bin(op, a, b, f) == [op |-> op, a |-> a, b |-> b, fa |-> f[1], fb |-> f[2]]
Ins2(op, a, b) == [op |-> op, a |-> a, b |-> b]

\* ---- layout family ----------------------------------------------------------------------
\* registers: 1 A(X)  2 B(Y)  3 float  4 B re-indexed onto A's Arc  5 S(X u Y)  6 A zero-padded onto S's Arc
\*            7 S2(X u the names in neither X nor Y)  8 A zero-padded onto S2's Arc  9 A with one entry perturbed  10 a zero-derivative number listing Y
\*            11 the float of 10's value  12 a number of 10's value listing no name  13 = 10 with derivatives -0.0
\* (6 and 8 are the same number by name but carry different extra names with zero derivative)
\* A written out on the list S (zero for the names A does not carry) with its LAST highest-order entry moved by 1/32:
\* equal to A in value and in everything of lower order, different in exactly one derivative
Perturbed(kind, X, S) ==
  LET n == Len(S)
      d == [i \in 1..n |-> IF S[i] \in SetOf(X) THEN DVal(1, S[i]) ELSE FZ]
      h == [i \in 1..n |-> [j \in 1..n |-> IF S[i] \in SetOf(X) /\ S[j] \in SetOf(X) THEN HVal(1, S[i], S[j]) ELSE FZ]]
  IN IF kind = "D1" THEN [t |-> "D1", re |-> FOfRat(7, 4), vars |-> S, d |-> [i \in 1..n |-> IF i = n THEN FAdd(d[i], FOfRat(1, 32)) ELSE d[i]]]
     ELSE [t |-> "D2", re |-> FOfRat(7, 4), vars |-> S, d |-> d,
           d2half |-> [i \in 1..n |-> [j \in 1..n |-> IF i = n /\ j = n THEN FAdd(h[i][j], FOfRat(1, 32)) ELSE h[i][j]]]]
\* a number that LISTS the names of Y but has every derivative zero (what `new_from(&other, c, vec![])` style
\* constants look like): arithmetic with it must still return the union of the names
ZeroOn(kind, Y) ==
  LET n == Len(Y) z == [i \in 1..n |-> FZ] IN
  IF kind = "D1" THEN [t |-> "D1", re |-> FOfRat(11, 8), vars |-> Y, d |-> z]
  ELSE [t |-> "D2", re |-> FOfRat(11, 8), vars |-> Y, d |-> z, d2half |-> [i \in 1..n |-> z]]
\* the same with every derivative -0.0 (what `1.0 - c`, `-c`, `c * -1.0` leave behind): still a zero derivative
NegZeroOn(kind, Y) ==
  LET n == Len(Y) z == [i \in 1..n |-> FNeg(FZ)] IN
  IF kind = "D1" THEN [t |-> "D1", re |-> FOfRat(11, 8), vars |-> Y, d |-> z]
  ELSE [t |-> "D2", re |-> FOfRat(11, 8), vars |-> Y, d |-> z, d2half |-> [i \in 1..n |-> z]]
CurvedOn(kind, Y) ==
  LET n == Len(Y) z == [i \in 1..n |-> FZ] IN
  IF kind = "D1" THEN [t |-> "D1", re |-> FOfRat(11, 8), vars |-> Y, d |-> z]
  ELSE [t |-> "D2", re |-> FOfRat(11, 8), vars |-> Y, d |-> z, d2half |-> [i \in 1..n |-> [j \in 1..n |-> FOfRat(i + j, 16)]]]
LayoutProg(kind, X, Y) ==
  LET leaves == << Leaf(kind, 1, FOfRat(7, 4), X), Leaf(kind, 2, FOfRat(5, 4), Y), LeafF(FOfRat(5, 2)),
                   LeafFrom(kind, 2, FOfRat(5, 4), Y, 1), Leaf(kind, 3, FOfRat(9, 8), UnionList(X, Y)),
                   LeafFrom(kind, 1, FOfRat(7, 4), X, 5),
                   Leaf(kind, 4, FOfRat(13, 8), UnionList(X, SetToSeq(Names \ (SetOf(X) \cup SetOf(Y))))),
                   LeafFrom(kind, 1, FOfRat(7, 4), X, 7),
                   Perturbed(kind, X, UnionList(X, Y)),
                   ZeroOn(kind, Y),
                   \* 11 the float with 10's value, 12 a number of 10's value that lists NO name, 13 = 10 with -0.0 derivatives:
                   \* 10 .. 13 are all the same number ("a missing variable and a zero derivative are the same thing")
                   LeafF(FOfRat(11, 8)), Leaf(kind, 5, FOfRat(11, 8), <<>>), NegZeroOn(kind, Y),
                   \* 14 made by `new` from a list that REPEATS a name (each name once, arrays of matching shape, whatever was asked)
                   \* 15 (second order) 10's value, zero gradient, but curvature of its own: NOT equal to 10, 11, 12
                   [t |-> kind \o "new", re |-> FOfRat(7, 4), vars |-> <<"a", "a", "b">>],
                   CurvedOn(kind, Y) >>
      pairs == {<<1, 2>>, <<2, 1>>, <<1, 4>>, <<4, 1>>, <<6, 2>>, <<2, 6>>, <<1, 3>>, <<3, 1>>}
      arith == {Bin(op, p[1], p[2], f) : op \in BinOps, p \in pairs, f \in Forms}
               \cup {Bin(op, p[1], p[2], <<"r", "r">>) : op \in BinOps, p \in {<<6, 8>>, <<8, 6>>, <<8, 2>>, <<2, 8>>}}
               \cup {Bin(op, p[1], p[2], f) : op \in BinOps, p \in {<<1, 10>>, <<10, 1>>}, f \in {<<"r", "r">>, <<"v", "v">>}}
      dd == {<<1, 2>>, <<2, 1>>, <<1, 4>>, <<4, 1>>, <<6, 2>>, <<2, 6>>, <<1, 6>>, <<6, 1>>, <<1, 1>>, <<6, 8>>, <<8, 6>>, <<8, 2>>}
      rel == {Ins2(op, p[1], p[2]) : op \in {"eq", "ne", "vars_cmp", "ptr_eq", "to_new_vars", "union_l", "union_r"}, p \in dd}
             \cup {Ins2(op, p[1], p[2]) : op \in {"eq", "ne"}, p \in {<<1, 3>>, <<3, 1>>}}
             \cup {Ins2(op, p[1], p[2]) : op \in {"eq", "ne"}, p \in {<<10, 11>>, <<11, 10>>, <<10, 12>>, <<12, 10>>, <<13, 10>>, <<10, 13>>,
                                                                      <<13, 11>>, <<11, 13>>, <<13, 12>>, <<12, 13>>, <<12, 11>>, <<11, 12>>,
                                                                      <<15, 11>>, <<11, 15>>, <<15, 10>>, <<10, 15>>, <<15, 12>>, <<12, 15>>,
                                                                      <<14, 1>>, <<1, 14>>, <<14, 14>>}}
             \cup {Bin(op, p[1], p[2], <<"r", "r">>) : op \in {"add", "mul", "sub"}, p \in {<<14, 1>>, <<1, 14>>, <<14, 14>>, <<14, 2>>}}
             \* a stationary factor (15: zero gradient, curvature) on either side of every operation
             \cup {Bin(op, p[1], p[2], f) : op \in {"add", "sub", "mul", "div"}, p \in {<<1, 15>>, <<15, 1>>, <<2, 15>>, <<15, 2>>, <<5, 15>>}, f \in {<<"r", "r">>, <<"v", "v">>}}
             \* 9 differs from A in ONE highest-order entry only, on lists aligned (6) and not aligned (1, 8) with its own
             \cup {Ins2(op, p[1], p[2]) : op \in {"eq", "ne"}, p \in {<<1, 9>>, <<9, 1>>, <<6, 9>>, <<9, 6>>, <<8, 9>>, <<9, 8>>}}
  IN [key |-> "layout/" \o kind \o "/" \o ToString(X) \o ToString(Y), leaves |-> leaves, code |-> SetToSeq(arith \cup rel)]
LayoutProgs == {LayoutProg(k, X, Y) : k \in {"D1", "D2"}, X \in VarLists, Y \in VarLists}

\* ---- read-back family (C17) ---------------------------------------------------------------
ReqLists == LET all == Names \cup {Absent}
                RECURSIVE L(_)
                L(n) == IF n = 0 THEN {<<>>} ELSE LET S == L(n - 1) IN S \cup {Append(s, x) : s \in {t \in S : Len(t) = n - 1}, x \in all}
            IN {s \in L(Cardinality(all)) : NoDup(s)}
\* registers: 1 D1(X)  2 D2(X)  3 D2(X)  4 D2(X) stationary  5 = 2 * 3  6 = 2 * 4  7 = 4 * 2
ReadProg(X) ==
  [key |-> "read/" \o ToString(X),
   \* 4 a second-order number whose FIRST derivatives are all exactly zero while its second-order array is not (a stationary
   \*   point: x * y at the origin) - still a number that depends on its names
   leaves |-> << Leaf("D1", 1, FOfRat(7, 4), X), Leaf("D2", 2, FOfRat(5, 4), X), Leaf("D2", 3, FOfRat(3, 4), X),
                 [t |-> "D2", re |-> FOfRat(9, 8), vars |-> X, d |-> [i \in 1..Len(X) |-> FZ], d2half |-> [i \in 1..Len(X) |-> [j \in 1..Len(X) |-> FOfRat(i + j, 16)]]] >>,
   \* 5 = 2 * 3, 6 = 2 * 4, 7 = 4 * 2 (the manifold of a product is read back too, a stationary factor on either side)
   code |-> << Bin("mul", 2, 3, <<"r", "r">>), Bin("mul", 2, 4, <<"r", "r">>), Bin("mul", 4, 2, <<"r", "r">>) >> \o
            SetToSeq({[op |-> "gradient1", a |-> a, names |-> r] : r \in ReqLists, a \in {1, 2, 4, 5}}
                     \cup {[op |-> "gradient2", a |-> a, names |-> r] : r \in ReqLists, a \in {2, 4, 5, 6, 7}}
                     \cup {[op |-> "manifold", a |-> a, names |-> r] : r \in ReqLists, a \in {2, 4, 5, 6}})]
ReadProgs == {ReadProg(X) : X \in VarLists}

\* ---- kind family (C18) ---------------------------------------------------------------------
\* registers: 1 F 2 D1 3 D2 4 N(F) 5 N(D1) 6 N(D2) 7 N(D1) other vars 8 N(D2) other vars 9 F
\* `crit`: values for which the float remainder and a - trunc(a/b)*b differ (1.0 % 0.1), so that a container arm
\* routed through the wrong contained-type operation is visible in the VALUE
KindProgV(X, Y, crit) ==
  LET leaves == IF crit THEN << LeafF(FOfRat(1, 10)), Leaf("D1", 1, FOfInt(1), X), Leaf("D2", 2, FOfInt(1), X),
                                Leaf("D1", 3, FOfRat(3, 10), Y), Leaf("D2", 4, FOfRat(3, 10), Y), LeafF(FOfRat(1, 10)) >>
                ELSE << LeafF(FOfRat(7, 4)), Leaf("D1", 1, FOfRat(5, 4), X), Leaf("D2", 2, FOfRat(3, 2), X),
                   Leaf("D1", 3, FOfRat(9, 8), Y), Leaf("D2", 4, FOfRat(11, 8), Y), LeafF(FOfRat(3, 4)) >>
      \* wraps: 7..11 = N(1), N(2), N(3), N(4), N(5)
      wraps == << [op |-> "wrap", a |-> 1], [op |-> "wrap", a |-> 2], [op |-> "wrap", a |-> 3], [op |-> "wrap", a |-> 4], [op |-> "wrap", a |-> 5] >>
      N == 7..11
      bin == {Bin(op, a, b, f) : op \in BinOps, a \in N, b \in N, f \in {<<"r", "r">>, <<"v", "v">>}}
             \cup {Bin(op, a, 6, f) : op \in BinOps, a \in N, f \in Forms} \cup {Bin(op, 6, a, f) : op \in BinOps, a \in N, f \in Forms}
      \* bare twins of the container operations (first with second order cannot be formed bare)
      Compat(a, b) == ~({a, b} \subseteq {2, 3, 4, 5} /\ ((a \in {2, 4}) # (b \in {2, 4})))
      raw == {Bin(op, a, b, f) : op \in BinOps, a \in 1..6, b \in 1..6, f \in {<<"r", "r">>, <<"v", "v">>}}
      rawok == {x \in raw : Compat(x.a, x.b)}
      cmp == {Ins2(op, a, b) : op \in {"lt", "le", "gt", "ge", "eq", "ne", "abs_sub"}, a \in N, b \in N}
             \cup {Ins2(op, a, 6) : op \in {"lt", "le", "gt", "ge", "eq", "ne"}, a \in N} \cup {Ins2(op, 6, a) : op \in {"lt", "le", "gt", "ge", "eq", "ne"}, a \in N}
      un == {[op |-> op, a |-> a, fa |-> f, p |-> FOfRat(3, 2)] : op \in {"neg", "pow", "exp", "log", "ncdf", "incdf", "abs", "signum", "is_positive", "is_negative", "is_zero"},
                                                                 a \in N \cup {2, 3}, f \in {"r", "v"}}
      conv == {[op |-> op, a |-> a, fa |-> f] : op \in {"to_f64", "to_d1", "to_d2", "unwrap", "to_n"}, a \in 1..11, f \in {"r", "v"}}
      so == {[op |-> op, a |-> a, order |-> o, vars |-> v] : op \in {"set_order", "set_order_clone"}, a \in N, o \in 0..2, v \in {<<>>, <<"p", "q">>, <<"p", "q", "p">>}}
      misc == {[op |-> "sum", kind |-> "N", regs |-> r] : r \in {<<>>, <<7>>, <<7, 8>>, <<8, 10, 7>>, <<9, 11, 7>>, <<8, 9>>}}
              \cup {[op |-> z, kind |-> k] : z \in {"zero", "one"}, k \in {"D1", "D2", "N"}}
  IN [key |-> "kinds/" \o (IF crit THEN "crit/" ELSE "") \o ToString(X) \o ToString(Y), leaves |-> leaves, code |-> wraps \o SetToSeq(bin \cup rawok \cup cmp \cup un \cup conv \cup so \cup misc)]
\* sums whose value depends on the order of addition (0.1 + 0.2 + 0.3 + 0.6 is 1.2000000000000002 from the left and
\* 1.2 pairwise): registers 1..5 = the numbers, 6..10 = their wrap-copies
\* registers: 1..5 the numbers, 6..10 the plain floats of the same values, 11..15 / 16..20 their wrap-copies; the container
\* sums also MIX the two (a float after a dual number: the fold still runs from the left, whatever the kinds)
SumCritProg(kind) ==
  LET vals == << FOfRat(1, 10), FOfRat(2, 10), FOfRat(3, 10), FOfRat(6, 10), FOfRat(7, 10) >>
      leaves == [i \in 1..5 |-> Leaf(kind, i, vals[i], <<"a", "b">>)] \o [i \in 1..5 |-> LeafF(vals[i])]
      wraps == [i \in 1..10 |-> [op |-> "wrap", a |-> i]]
      lists == {<<1, 2, 3, 4>>, <<4, 3, 2, 1>>, <<1, 2, 3, 4, 5>>, <<5, 1, 4, 2, 3>>, <<2, 4, 1, 3>>, <<3, 3, 3, 3, 3, 3>>}
      mixed == {<<11, 17, 18>>, <<17, 11, 18>>, <<16, 17, 13>>, <<11, 17, 18, 19>>, <<16, 12, 18, 14, 20>>, <<15, 16, 17, 18, 19>>, <<16, 17, 18, 19>>, <<19, 18, 12, 16>>}
  IN [key |-> "order/sumcrit/" \o kind, leaves |-> leaves,
      code |-> wraps \o SetToSeq({[op |-> "sum", kind |-> kind, regs |-> l] : l \in lists}
                                 \cup {[op |-> "sum", kind |-> "N", regs |-> [i \in 1..Len(l) |-> l[i] + 10]] : l \in lists}
                                 \cup {[op |-> "sum", kind |-> "N", regs |-> l] : l \in mixed})]
\* values a hair apart (neighbouring doubles, and 0 against 5.55e-17): every comparison is the float comparison, number on
\* either side, bare and wrapped - nothing is "equal within a margin"
\* registers: 1 kind(1)  2 kind(0.9999999999999999)  3 kind(5.55e-17)  4 kind(0)  5 F(1)  6 F(0.9999999999999999)  7 F(5.55e-17)  8 F(0); 9..16 wraps
NearProg(kind) ==
  LET vs == << FOfInt(1), FOfStr("0.9999999999999999"), FOfStr("5.55e-17"), FZ >>
      leaves == [i \in 1..4 |-> Leaf(kind, i, vs[i], <<"a">>)] \o [i \in 1..4 |-> LeafF(vs[i])]
      wraps == [i \in 1..8 |-> [op |-> "wrap", a |-> i]]
      ops == {"lt", "le", "gt", "ge", "eq", "ne"}
      cmp == {Ins2(op, a, b) : op \in ops, a \in 1..8, b \in 1..8} \cup {Ins2(op, a, b) : op \in ops, a \in 9..16, b \in 9..16}
             \cup {Ins2(op, a, b) : op \in ops, a \in 9..16, b \in 5..8} \cup {Ins2(op, a, b) : op \in ops, a \in 5..8, b \in 9..16}
  IN [key |-> "order/near/" \o kind, leaves |-> leaves, code |-> wraps \o SetToSeq(cmp)]
\* sign predicates exactly at zero (and at -0.0), bare and inside the container: the container must answer what the
\* contained type answers
\* registers: 1 F(0.0)  2 F(-0.0)  3 D1(0.0)  4 D2(0.0)  5 D1(-0.0)  6 F(1.5)
\*            7 D1 and 8 D2 that are zero in value AND in every derivative while still listing names (what x - x leaves behind)
\*            9 D2 zero but for its second-order array;  10..18 their wrap-copies
SignZeroProg ==
  LET z2 == <<FZ, FZ>>
      leaves == << LeafF(FZ), LeafF(FNeg(FZ)), Leaf("D1", 1, FZ, <<"a">>), Leaf("D2", 2, FZ, <<"a">>), Leaf("D1", 3, FNeg(FZ), <<"a">>), LeafF(FOfRat(3, 2)),
                   [t |-> "D1", re |-> FZ, vars |-> <<"a", "b">>, d |-> z2], [t |-> "D2", re |-> FZ, vars |-> <<"a", "b">>, d |-> z2, d2half |-> <<z2, z2>>],
                   \* 9: zero in value and gradient but NOT in its second-order array (x * x at 0): not a zero
                   [t |-> "D2", re |-> FZ, vars |-> <<"a", "b">>, d |-> z2, d2half |-> <<<<FOne, FZ>>, <<FZ, FZ>>>>] >>
      wraps == [i \in 1..9 |-> [op |-> "wrap", a |-> i]]
      un == {[op |-> op, a |-> a, fa |-> "r"] : op \in {"is_positive", "is_negative", "signum", "is_zero", "abs", "neg"}, a \in 1..18}
  IN [key |-> "kinds/signzero", leaves |-> leaves, code |-> wraps \o SetToSeq(un)]

\* equality across kinds where everything of lower order coincides: a second-order number with ZERO gradient and a
\* non-zero stored second-order array against the float (and the first-order constant) of the same value, bare and wrapped,
\* in both positions - they are NOT equal, whatever the container arm looks at
\* registers: 1 F  2 D2 (zero gradient, curvature)  3 D1 (zero gradient)  4 D2 (all derivatives zero)  5 N(1)  6 N(2)  7 N(3)  8 N(4)
EqZeroProg(X) ==
  LET n == Len(X)
      zero == [i \in 1..n |-> FZ]
      leaves == << LeafF(FOfRat(3, 2)),
                   [t |-> "D2", re |-> FOfRat(3, 2), vars |-> X, d |-> zero, d2half |-> [i \in 1..n |-> [j \in 1..n |-> FOfRat(i + j, 16)]]],
                   [t |-> "D1", re |-> FOfRat(3, 2), vars |-> X, d |-> zero],
                   [t |-> "D2", re |-> FOfRat(3, 2), vars |-> X, d |-> zero, d2half |-> [i \in 1..n |-> zero]] >>
      wraps == << [op |-> "wrap", a |-> 1], [op |-> "wrap", a |-> 2], [op |-> "wrap", a |-> 3], [op |-> "wrap", a |-> 4] >>
      pairs == {<<1, 2>>, <<2, 1>>, <<1, 4>>, <<4, 1>>, <<2, 4>>, <<4, 2>>, <<1, 3>>, <<3, 1>>,          \* bare
                <<5, 6>>, <<6, 5>>, <<5, 8>>, <<8, 5>>, <<6, 8>>, <<8, 6>>, <<5, 7>>, <<7, 5>>,          \* container with container
                <<1, 6>>, <<6, 1>>, <<1, 8>>, <<8, 1>>, <<1, 7>>, <<7, 1>>}                              \* bare float with container
  IN [key |-> "kinds/eqzero/" \o ToString(X), leaves |-> leaves, code |-> wraps \o SetToSeq({Ins2(op, p[1], p[2]) : op \in {"eq", "ne"}, p \in pairs})]
\* remainders of NEGATIVE dividends (truncated, not floored: -7.5 % 2 = -1.5), container against raw float in both
\* positions, container against container, and the bare twins
\* registers: 1 F(-15/2) 2 D1(-15/2) 3 D2(-15/2) 4 F(2) 5 F(-2) 6 D1(2) 7 D2(2); 8..14 their wrap-copies
NegRemProg ==
  LET X == <<"a", "b">>
      leaves == << LeafF(FOfRat(-15, 2)), Leaf("D1", 1, FOfRat(-15, 2), X), Leaf("D2", 2, FOfRat(-15, 2), X), LeafF(FOfInt(2)), LeafF(FOfInt(-2)),
                   Leaf("D1", 3, FOfInt(2), X), Leaf("D2", 4, FOfInt(2), X) >>
      wraps == [i \in 1..7 |-> [op |-> "wrap", a |-> i]]
      code == {Bin("rem", a, b, f) : a \in {8, 9, 10}, b \in {4, 5}, f \in Forms} \cup {Bin("rem", b, a, f) : a \in {8, 9, 10, 13, 14}, b \in {1, 4, 5}, f \in Forms}
              \cup {Bin("rem", a, b, f) : a \in {8, 9, 10}, b \in {11, 12}, f \in {<<"r", "r">>, <<"v", "v">>}}
              \cup {Bin("rem", 9, 13, <<"r", "r">>), Bin("rem", 10, 14, <<"r", "r">>), Bin("rem", 8, 13, <<"r", "r">>), Bin("rem", 8, 14, <<"v", "v">>)}
              \cup {Bin("rem", a, b, <<"r", "r">>) : a \in {1, 2, 3}, b \in {4, 5}} \cup {Bin("rem", 2, 6, <<"r", "r">>), Bin("rem", 3, 7, <<"r", "r">>), Bin("rem", 1, 6, <<"r", "r">>), Bin("rem", 1, 7, <<"r", "r">>)}
  IN [key |-> "kinds/negrem", leaves |-> leaves, code |-> wraps \o SetToSeq(code)]
KindProgs == {SignZeroProg, NegRemProg} \cup {EqZeroProg(X) : X \in {<<"a">>, <<"a", "b">>}} \cup {KindProgV(X, Y, c) : X \in {<<"a", "b">>, <<>>}, Y \in {<<"a", "b">>, <<"b", "c">>, <<"b", "a">>}, c \in BOOLEAN}

\* ---- order family (C19) ----------------------------------------------------------------------
Vals == {FOfRat(-5, 2), FOfInt(-1), FOfRat(-3, 4), FOfRat(3, 4), FOfInt(1), FOfRat(5, 2)}
\* registers: 1 A 2 B 3 float(va) 4 float(vb); then zero, one, wraps
OrderProg(kind, va, vb, X, Y) ==
  LET leaves == << Leaf(kind, 1, va, X), Leaf(kind, 2, vb, Y), LeafF(va), LeafF(vb) >>
      pre == << [op |-> "zero", kind |-> kind], [op |-> "one", kind |-> kind], [op |-> "wrap", a |-> 1], [op |-> "wrap", a |-> 2] >>   \* 5 zero 6 one 7 N(A) 8 N(B)
      cmp == {Ins2(op, p[1], p[2]) : op \in {"lt", "le", "gt", "ge", "eq", "ne"},
                                     p \in {<<1, 2>>, <<2, 1>>, <<1, 4>>, <<3, 2>>, <<7, 8>>, <<7, 4>>, <<3, 8>>, <<1, 1>>, <<1, 3>>}}
      rem == {Bin("rem", p[1], p[2], f) : p \in {<<1, 2>>, <<1, 4>>, <<3, 2>>, <<7, 8>>, <<7, 4>>, <<3, 8>>}, f \in {<<"r", "r">>, <<"v", "v">>}}
      un == {[op |-> op, a |-> a, fa |-> "r"] : op \in {"abs", "signum", "is_positive", "is_negative", "is_zero"}, a \in {1, 2, 7, 5}}
      ident == {Bin("add", 1, 5, <<"r", "r">>), Bin("add", 5, 1, <<"r", "r">>), Bin("mul", 1, 6, <<"r", "r">>), Bin("mul", 6, 1, <<"r", "r">>),
                Ins2("abs_sub", 1, 2), Ins2("abs_sub", 2, 1)}
      sums == {[op |-> "sum", kind |-> kind, regs |-> r] : r \in {<<>>, <<1>>, <<1, 2>>, <<2, 1, 2>>, <<1, 2, 1, 2>>}}
  IN [key |-> "order/" \o kind \o "/" \o FStr(va) \o "/" \o FStr(vb) \o ToString(X) \o ToString(Y), leaves |-> leaves,
      code |-> pre \o SetToSeq(cmp \cup rem \cup un \cup ident \cup sums)]
\* comparisons where a value is NaN: every ordering is false and != is true, as for floats - through the core operators
\* (bare and wrapped, number / float in both positions) and through the Python-facing comparison methods
\* registers: 1 kind(NaN)  2 kind(1)  3 F(NaN)  4 F(1); 5..8 their wrap-copies
NanProg(kind) ==
  LET nan == FOfStr("NaN")
      leaves == << Leaf(kind, 1, nan, <<"a">>), Leaf(kind, 2, FOfInt(1), <<"a">>), LeafF(nan), LeafF(FOfInt(1)) >>
      wraps == [i \in 1..4 |-> [op |-> "wrap", a |-> i]]
      cmp == {Ins2(op, a, b) : op \in {"lt", "le", "gt", "ge", "eq", "ne"}, a \in 1..4, b \in 1..4}
             \cup {Ins2(op, a, b) : op \in {"lt", "le", "gt", "ge", "eq", "ne"}, a \in 5..8, b \in 5..8}
             \cup {Ins2(op, a, b) : op \in {"lt", "le", "gt", "ge", "eq", "ne"}, a \in 5..8, b \in {3, 4}}
             \cup {Ins2(op, a, b) : op \in {"lt", "le", "gt", "ge", "eq", "ne"}, a \in {3, 4}, b \in 5..8}
      py == {[op |-> "py", name |-> n, a |-> a, b |-> b] : n \in {"__eq__", "__lt__", "__le__", "__gt__", "__ge__"}, a \in {1, 2}, b \in 1..4}
  IN [key |-> "order/nan/" \o kind, leaves |-> leaves, code |-> wraps \o SetToSeq(cmp \cup py)]
\* sums whose running total passes through exactly 0.0 while still carrying derivatives (1.5(a) - 1.5(b) + 4(c)): the fold
\* keeps adding, value AND derivatives; bare and in the container
\* registers: 1 kind(3/2; a)  2 kind(-3/2; b)  3 kind(4; c)  4 kind(0; a)  5 kind(2; b); 6..10 wraps
SumZeroProg(kind) ==
  LET leaves == << Leaf(kind, 1, FOfRat(3, 2), <<"a">>), Leaf(kind, 2, FOfRat(-3, 2), <<"b">>), Leaf(kind, 3, FOfInt(4), <<"c">>),
                   Leaf(kind, 4, FZ, <<"a">>), Leaf(kind, 1, FOfInt(2), <<"b">>) >>
      wraps == [i \in 1..5 |-> [op |-> "wrap", a |-> i]]
      lists == {<<1, 2, 3>>, <<2, 1, 3>>, <<4, 5>>, <<1, 2>>, <<4, 1, 2, 5>>, <<1, 2, 4, 3>>}
  IN [key |-> "order/sumzero/" \o kind, leaves |-> leaves,
      code |-> wraps \o SetToSeq({[op |-> "sum", kind |-> kind, regs |-> l] : l \in lists}
                                 \cup {[op |-> "sum", kind |-> "N", regs |-> [i \in 1..Len(l) |-> l[i] + 5]] : l \in lists})]
\* comparisons at the infinities (inf <= inf, -inf >= -inf are TRUE; nothing is computed by subtracting)
\* registers: 1 kind(inf) 2 kind(-inf) 3 kind(1) 4 F(inf) 5 F(-inf) 6 F(1); 7..12 wraps
InfProg(kind) ==
  LET inf == FOfStr("Infinity") ninf == FOfStr("-Infinity")
      leaves == << Leaf(kind, 1, inf, <<"a">>), Leaf(kind, 2, ninf, <<"a">>), Leaf(kind, 3, FOfInt(1), <<"a">>), LeafF(inf), LeafF(ninf), LeafF(FOfInt(1)) >>
      wraps == [i \in 1..6 |-> [op |-> "wrap", a |-> i]]
      ops == {"lt", "le", "gt", "ge", "eq", "ne"}
      cmp == {Ins2(op, a, b) : op \in ops, a \in 1..6, b \in 1..6} \cup {Ins2(op, a, b) : op \in ops, a \in 7..12, b \in 7..12}
             \cup {Ins2(op, a, b) : op \in ops, a \in 7..12, b \in 4..6} \cup {Ins2(op, a, b) : op \in ops, a \in 4..6, b \in 7..12}
      py == {[op |-> "py", name |-> n, a |-> a, b |-> b] : n \in {"__eq__", "__lt__", "__le__", "__gt__", "__ge__"}, a \in {1, 2, 3}, b \in 1..6}
  IN [key |-> "order/inf/" \o kind, leaves |-> leaves, code |-> wraps \o SetToSeq(cmp \cup py)]
OrderLayouts == {<<<<"a", "b">>, <<"a", "b">>>>, <<<<"a", "b">>, <<"b", "a">>>>, <<<<"a">>, <<"b", "c">>>>, <<<<"a", "b", "c">>, <<"b">>>>, <<<<>>, <<"a">>>>}
\* quotients beyond the 32-bit integers (a truncation done through an integer cast saturates there)
Big == FMul(FOfInt(100000), FOfInt(100000))
OrderProgs == {OrderProg(k, va, vb, L[1], L[2]) : k \in {"D1", "D2"}, va \in Vals, vb \in Vals, L \in OrderLayouts}
              \cup {OrderProg(k, va, vb, <<"a", "b">>, <<"b", "a">>) : k \in {"D1", "D2"}, va \in {Big, FNeg(Big)}, vb \in {FOfInt(3), FOfInt(-7)}}
              \* signed zeros: -0.0 and 0.0 are EQUAL as floats (neither is less than the other)
              \cup {OrderProg(k, va, vb, <<"a">>, <<"a">>) : k \in {"D1", "D2"}, va \in {FZ, FNeg(FZ), FOfInt(1)}, vb \in {FZ, FNeg(FZ)}}

\* ---- py family: the Python-facing method table (PyNum.tla) ------------------------------------------
\* registers: 1 F  2 D1(X)  3 D2(X)  4 D1(Y)  5 D2(Y)  6 F (negative)  7 N(D1 X)  8 N(D2 X)
PyBinNames == {"__add__", "__radd__", "__sub__", "__rsub__", "__mul__", "__rmul__", "__truediv__", "__rtruediv__", "__pow__"}
PyCmpNames == {"__eq__", "__lt__", "__le__", "__gt__", "__ge__"}
PyUnNames == {"__neg__", "__exp__", "__abs__", "__log__", "__norm_cdf__", "__norm_inv_cdf__", "__float__", "renew", "pickle", "to_json", "to_dual", "to_dual2", "real", "vars"}
PyProg(X, Y, neg) ==
  LET s == IF neg THEN -1 ELSE 1
      leaves == << LeafF(FOfRat(7, 4)), Leaf("D1", 1, FOfRat(s * 5, 8), X), Leaf("D2", 2, FOfRat(s * 3, 4), X),
                   Leaf("D1", 3, FOfRat(9, 16), Y), Leaf("D2", 4, FOfRat(11, 16), Y), LeafF(FOfRat(-3, 4)) >>
      pre == << [op |-> "wrap", a |-> 2], [op |-> "wrap", a |-> 3] >>
      selfs == {2, 3, 4, 5}
      others == 1..8
      bin == {[op |-> "py", name |-> n, a |-> a, b |-> b] : n \in PyBinNames \cup PyCmpNames, a \in selfs, b \in others}
      un == {x \in {[op |-> "py", name |-> n, a |-> a] : n \in PyUnNames, a \in selfs} :
                 (x.name = "to_dual" => x.a \in {3, 5}) /\ (x.name = "to_dual2" => x.a \in {2, 4})}
      \* the core operations the names denote, for the bit-for-bit comparison
      core == {Bin(op, a, b, <<"r", "r">>) : op \in {"add", "sub", "mul", "div"}, a \in 1..6, b \in 1..6}
      coreok == {x \in core : ~({x.a, x.b} \subseteq {2, 3, 4, 5} /\ ((x.a \in {2, 4}) # (x.b \in {2, 4}))) /\ ({x.a, x.b} \cap selfs # {})}
      new == {[op |-> "py", name |-> "new", kind |-> k, re |-> FOfRat(5, 4), vars |-> v, d |-> [i \in 1..nd |-> FOfRat(i, 2)]] @@
                (IF k = "D2" THEN [d2half |-> [i \in 1..nh |-> [j \in 1..nh |-> FOfRat(i + j, 8)]]] ELSE <<>>) :
              k \in {"D1", "D2"}, v \in {<<>>, <<"p">>, <<"p", "q">>, <<"p", "q", "p">>}, nd \in 0..3, nh \in 0..2}
      ord == {[op |-> "py", name |-> "adorder", order |-> o] : o \in 0..4}
      \* ptr_eq among the numbers of one kind (2 and 7's source share nothing, a number shares with itself and with what vars_from makes of it)
      ptr == {[op |-> "py", name |-> "ptr_eq", a |-> a, b |-> b] : a \in {2, 4}, b \in {2, 4}} \cup {[op |-> "py", name |-> "ptr_eq", a |-> a, b |-> b] : a \in {3, 5}, b \in {3, 5}}
      man == {[op |-> "py", name |-> "grad1_manifold", a |-> a, names |-> nm] : a \in {3, 5}, nm \in {<<>>, <<"a">>, <<"b", "a">>, <<"c", "a", "b">>, <<"z">>}}
      vf == {[op |-> "py", name |-> "vars_from", a |-> a, re |-> FOfRat(9, 4), vars |-> v, d |-> [i \in 1..nd |-> FOfRat(i, 2)]] @@
                (IF a = 3 THEN [d2half |-> [i \in 1..nh |-> [j \in 1..nh |-> FOfRat(i + j, 8)]]] ELSE <<>>) :
             a \in {2, 3}, v \in {<<>>, <<"a">>, <<"b", "a">>, <<"a", "b">>, <<"p", "a">>}, nd \in 0..2, nh \in {0, 2}}
  IN [key |-> "py/" \o (IF neg THEN "neg/" ELSE "") \o ToString(X) \o ToString(Y), leaves |-> leaves,
      code |-> pre \o SetToSeq(bin \cup un \cup coreok \cup new \cup ord \cup ptr \cup man \cup vf)]
\* Python-level equality where one side carries an EXTRA variable with a non-zero derivative and agrees on the rest:
\* not equal, whichever side is asked; a permuted list is equal
\* registers: 1 D1(2; a,b)  2 D1(2; a)  3 D1(2; b,a)  4 D2(2; a,b)  5 D2(2; a)  6 D2(2; b,a)  (second-order arrays zero)
PyEqSubProg ==
  LET h == FOfRat(1, 2) q == FOfRat(3, 4) z2 == <<<<FZ, FZ>>, <<FZ, FZ>>>>
      leaves == << [t |-> "D1", re |-> FTwo, vars |-> <<"a", "b">>, d |-> <<h, q>>], [t |-> "D1", re |-> FTwo, vars |-> <<"a">>, d |-> <<h>>],
                   [t |-> "D1", re |-> FTwo, vars |-> <<"b", "a">>, d |-> <<q, h>>],
                   [t |-> "D2", re |-> FTwo, vars |-> <<"a", "b">>, d |-> <<h, q>>, d2half |-> z2], [t |-> "D2", re |-> FTwo, vars |-> <<"a">>, d |-> <<h>>, d2half |-> <<<<FZ>>>>],
                   [t |-> "D2", re |-> FTwo, vars |-> <<"b", "a">>, d |-> <<q, h>>, d2half |-> z2] >>
      pairs == {<<1, 2>>, <<2, 1>>, <<1, 3>>, <<3, 1>>, <<2, 3>>, <<3, 2>>, <<4, 5>>, <<5, 4>>, <<4, 6>>, <<6, 4>>, <<5, 6>>, <<6, 5>>}
  IN [key |-> "py/eqsub", leaves |-> leaves,
      code |-> SetToSeq({[op |-> "py", name |-> "__eq__", a |-> p[1], b |-> p[2]] : p \in pairs} \cup {Ins2(op, p[1], p[2]) : op \in {"eq", "ne"}, p \in pairs})]
PyProgs == {PyEqSubProg} \cup {PyProg(X, Y, n) : X \in {<<"a", "b">>, <<>>}, Y \in {<<"a", "b">>, <<"b", "c">>, <<"b", "a">>}, n \in BOOLEAN}

\* ---- tails family: the far ends of the differentiable domain (C01 / C02) ---------------------------------
\* probabilities down to 1e-300 and up to the last double below 1 for the quantile, arguments out to +-8.4 for the
\* normal cdf, +-19 for exp, 1e-5 for log; bare (both operand forms) and inside the container
TailProg(kind) ==
  LET ps == << FOfStr("1e-17"), FOfStr("1e-20"), FOfStr("1e-100"), FOfStr("1e-5"), FOfStr("0.999999"), FOfStr("0.9999999999999999"),
               FOfStr("1e-3"), FOfStr("0.5") >> \o (IF kind = "D1" THEN << FOfStr("1e-300") >> ELSE << >>)
      xs == << FOfRat(-42, 5), FOfRat(-8, 1), FOfRat(8, 1), FOfRat(-19, 1), FOfRat(19, 1), FOfStr("1e-5") >>
      np == Len(ps) nx == Len(xs)
      leaves == [i \in 1..np |-> Leaf(kind, 1 + (i % 4), ps[i], <<"a", "b">>)] \o [i \in 1..nx |-> Leaf(kind, 1 + (i % 4), xs[i], <<"b", "c">>)]
                \o [i \in 1..np |-> LeafF(ps[i])]
      nl == np + nx + np
      wraps == [i \in 1..(np + nx) |-> [op |-> "wrap", a |-> i]]
      un(op, a, f) == [op |-> op, a |-> a, fa |-> f, p |-> FOfRat(3, 2)]
      code == {un("incdf", a, f) : a \in (1..np) \cup ((np + nx + 1)..nl) \cup ((nl + 1)..(nl + np)), f \in {"r", "v"}}
              \cup {un("ncdf", a, f) : a \in {np + 1, np + 2, np + 3, nl + np + 1, nl + np + 2}, f \in {"r", "v"}}
              \cup {un("exp", a, f) : a \in {np + 4, np + 5}, f \in {"r", "v"}}
              \cup {un("log", a, f) : a \in {np + 6, 4}, f \in {"r", "v"}}
  IN [key |-> "tails/" \o kind, leaves |-> leaves, code |-> wraps \o SetToSeq(code)]
TailProgs == {TailProg("D1"), TailProg("D2")}

Family == IOEnv.FAMILY
Out == CASE Family = "layout" -> LayoutProgs [] Family = "read" -> ReadProgs [] Family = "kinds" -> KindProgs [] Family = "order" -> OrderProgs \cup {SumCritProg("D1"), SumCritProg("D2"), NanProg("D1"), NanProg("D2"), NearProg("D1"), NearProg("D2"),
                                                                                                       SumZeroProg("D1"), SumZeroProg("D2"), InfProg("D1"), InfProg("D2")} [] Family = "py" -> PyProgs [] Family = "tails" -> TailProgs
ASSUME ndJsonSerialize(IOEnv.OUT, SetToSeq(Out))
ASSUME PrintT(<<"GEN", Family, Cardinality(Out)>>)
VARIABLE x
Init == x = 0
Next == x' = x
===============================================================================
