CONSTANTS
  N = 2
  Entries <- E2
  RHS <- R2
INIT GInit
NEXT GNext
CHECK_DEADLOCK FALSE
