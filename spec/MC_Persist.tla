--------------------------------- MODULE MC_Persist ---------------------------------
(* (M) for C16 / C20: the save / load PROTOCOL as a state machine over a small          *)
(* abstract universe.  mem is the object in memory, doc the stored document (a record   *)
(* tree of abstract field values), fmt the format.                                      *)
(*   Save        mem -> doc : the stored fields (NamedCal: name only; FXRates: quotes   *)
(*               and currency list only)                                                *)
(*   Mutate      one field of the document is deleted, duplicated, retyped or altered   *)
(*   Load        doc -> mem or Err : fields are validated (shape invariants) and the    *)
(*               rebuild-on-load types are rebuilt (name parsed; market built from the  *)
(*               first stored currency, FXRates!Build, at order 1)                      *)
(*   NewFromArgs / SetState   the pickle protocol Python runs on a pyo3 class: a shell  *)
(*               object is made by the class constructor from __getnewargs__ (which may *)
(*               be LOSSY - Convention maps two members to one index - but must never   *)
(*               be refused), then overwritten by __setstate__ with the binary state    *)
(* Properties: Load(Save(o)) = Canon(o); Canon is idempotent; Save o Load o Save = Save; *)
(* a mutated document loads to Err or to an object satisfying its shape invariants.     *)
EXTENDS FXRates, NamedCal, TLC
VARIABLES mem, doc, fmt, phase, mutated, orig, shell
vars == <<mem, doc, fmt, phase, mutated, orig, shell>>
Err == [t |-> "Err"]
\* ---- the abstract universe -------------------------------------------------------------
DualObjs == {[t |-> "Dual", vars |-> v, d |-> [i \in 1..Len(v) |-> i]] : v \in {<<>>, <<"x">>, <<"x", "y">>}}
SplineObjs == {[t |-> "Spline", k |-> 2, nt |-> 5, n |-> 3, c |-> c] : c \in {<<>>, <<1, 2, 3>>}}
NamedObjs == {[t |-> "NamedCal", name |-> n, parsed |-> ParseDecl(n)] : n \in {<<"tgt">>, <<"tgt", ",", "ldn", "|", "fed">>}}
Q(l, r) == [l |-> l, r |-> r]
FxObj(qs, b, o) == LET m == Build(qs, b, [k \in 1..Len(qs) |-> 0]) IN [t |-> "FXRates", quotes |-> qs, ccys |-> m.idx, fx |-> m.fx, order |-> o]
FxObjs == {FxObj(<<Q("eur", "usd")>>, <<>>, o) : o \in 0..2} \cup {FxObj(<<Q("eur", "usd"), Q("usd", "jpy")>>, <<"jpy">>, o) : o \in 0..2}
EnumObjs == {[t |-> "Enum", i |-> i] : i \in 0..10}                 \* Convention: eleven members
Objs == DualObjs \cup SplineObjs \cup NamedObjs \cup FxObjs \cup EnumObjs
Canon(o) == IF o.t = "FXRates" THEN [o EXCEPT !.order = 1] ELSE o
\* ---- protocol ------------------------------------------------------------------------------
SaveDoc(o) == CASE o.t = "Dual" -> [t |-> "Dual", vars |-> o.vars, d |-> o.d, broken |-> {}]
                [] o.t = "Spline" -> [t |-> "Spline", k |-> o.k, nt |-> o.nt, n |-> o.n, c |-> o.c, broken |-> {}]
                [] o.t = "NamedCal" -> [t |-> "NamedCal", name |-> o.name, broken |-> {}]                          \* by name only
                [] o.t = "FXRates" -> [t |-> "FXRates", quotes |-> o.quotes, ccys |-> o.ccys, broken |-> {}]        \* quotes and currencies only
                [] o.t = "Enum" -> [t |-> "Enum", i |-> o.i, broken |-> {}]
\* a field that was deleted, duplicated or replaced by a value of the wrong JSON type is recorded in d.broken
FieldsOf(d) == DOMAIN d \ {"t", "broken"}
WellTyped(d) == d.broken = {}
LoadDoc(d) ==
  IF ~WellTyped(d) THEN Err
  ELSE CASE d.t = "Dual" -> IF Len(d.vars) = Len(d.d) THEN [t |-> "Dual", vars |-> d.vars, d |-> d.d] ELSE Err
         [] d.t = "Spline" -> IF d.n = d.nt - d.k /\ (d.c = <<>> \/ Len(d.c) = d.n) THEN [t |-> "Spline", k |-> d.k, nt |-> d.nt, n |-> d.n, c |-> d.c] ELSE Err
         [] d.t = "NamedCal" -> LET p == ParseDecl(d.name) IN IF p.ok THEN [t |-> "NamedCal", name |-> d.name, parsed |-> p] ELSE Err
         [] d.t = "Enum" -> IF d.i \in 0..10 THEN [t |-> "Enum", i |-> d.i] ELSE Err
         [] d.t = "FXRates" -> IF d.ccys = <<>> THEN Err
                               ELSE LET m == Build(d.quotes, <<d.ccys[1]>>, [k \in 1..Len(d.quotes) |-> 0]) IN
                                    IF m.phase = "ready" /\ m.idx = d.ccys THEN [t |-> "FXRates", quotes |-> d.quotes, ccys |-> m.idx, fx |-> m.fx, order |-> 1] ELSE Err
ShapeOKAbs(o) == CASE o.t = "Dual" -> Len(o.vars) = Len(o.d)
                   [] o.t = "Spline" -> o.n = o.nt - o.k /\ (o.c = <<>> \/ Len(o.c) = o.n)
                   [] o.t = "NamedCal" -> o.parsed.ok /\ Len(o.parsed.cals) >= 1
                   [] o.t = "Enum" -> o.i \in 0..10
                   [] o.t = "FXRates" -> Len(o.ccys) = Len(o.quotes) + 1 /\ ReadyCorrect([idx |-> o.ccys, quotes |-> o.quotes, fx |-> o.fx])
\* single mutations of a document
Alter(d, f) == CASE f = "vars" -> {Append(d.vars, "z"), IF d.vars = <<>> THEN <<"q">> ELSE Tail(d.vars)}
                 [] f = "d" -> {Append(d.d, 9), IF d.d = <<>> THEN <<7>> ELSE Tail(d.d)}
                 [] f = "k" -> {d.k + 1} [] f = "nt" -> {d.nt + 1} [] f = "n" -> {d.n + 1, 7}
                 [] f = "c" -> {Append(d.c, 9), IF d.c = <<>> THEN <<1>> ELSE Tail(d.c)}
                 [] f = "name" -> {<<"xyz">>, <<"tgt", "|", "|">>, <<>>, <<"ldn">>}
                 [] f = "quotes" -> {<<>>, Append(d.quotes, Q("eur", "usd")), <<Q("gbp", "cad")>>, Append(d.quotes, Q("aud", "nzd"))}
                 [] f = "ccys" -> {<<>>, <<"xxx">>, IF d.ccys = <<>> THEN <<>> ELSE Tail(d.ccys)}
                 [] f = "i" -> {d.i + 1, 99}
Mutations(d) == {[d EXCEPT !.broken = {<<f, how>>}] : f \in FieldsOf(d), how \in {"deleted", "duplicated", "retyped"}}
                \cup UNION {{[d EXCEPT ![f] = v] : v \in Alter(d, f)} : f \in FieldsOf(d)}
\* ---- pickle protocol -----------------------------------------------------------------------
\* what __getnewargs__ hands to the constructor (as the crate does: the Convention table gives Thirty360ISDA, member 7,
\* the index of member 6; a market gives its quotes and its first currency as base; splines have no pickle protocol)
NewArgs(o) == CASE o.t = "Dual" -> [t |-> "Dual", vars |-> o.vars, d |-> o.d]
                [] o.t = "NamedCal" -> [t |-> "NamedCal", name |-> o.name]
                [] o.t = "FXRates" -> [t |-> "FXRates", quotes |-> o.quotes, base |-> <<o.ccys[1]>>]
                [] o.t = "Enum" -> [t |-> "Enum", i |-> IF o.i = 7 THEN 6 ELSE o.i]
\* the class constructors
NewObj(a) == CASE a.t = "Dual" -> IF a.d = <<>> \/ Len(a.d) = Len(a.vars) THEN [t |-> "Dual", vars |-> a.vars, d |-> IF a.d = <<>> THEN [i \in 1..Len(a.vars) |-> 1] ELSE a.d] ELSE Err
               [] a.t = "NamedCal" -> LET p == ParseDecl(a.name) IN IF p.ok THEN [t |-> "NamedCal", name |-> a.name, parsed |-> p] ELSE Err
               [] a.t = "FXRates" -> LET m == Build(a.quotes, a.base, [k \in 1..Len(a.quotes) |-> 0]) IN
                                     IF m.phase = "ready" THEN [t |-> "FXRates", quotes |-> a.quotes, ccys |-> m.idx, fx |-> m.fx, order |-> 1] ELSE Err
               [] a.t = "Enum" -> IF a.i \in 0..10 THEN [t |-> "Enum", i |-> a.i] ELSE Err
Init == /\ mem \in Objs /\ orig = mem /\ doc = [t |-> "none"] /\ fmt \in {"json", "tagged", "bincode", "pickle"} /\ phase = "mem" /\ mutated = FALSE
        /\ shell = [t |-> "none"] /\ (fmt = "pickle" => mem.t # "Spline")
NewFromArgs == /\ phase = "mem" /\ fmt = "pickle" /\ shell' = NewObj(NewArgs(mem)) /\ phase' = "shell" /\ UNCHANGED <<mem, doc, fmt, mutated, orig>>
SetState == /\ phase = "shell" /\ shell # Err /\ doc' = SaveDoc(mem) /\ mem' = LoadDoc(SaveDoc(mem)) /\ phase' = "loaded"
            /\ UNCHANGED <<fmt, mutated, orig, shell>>
Save == /\ phase = "mem" /\ fmt # "pickle" /\ doc' = SaveDoc(mem) /\ phase' = "stored" /\ UNCHANGED <<mem, fmt, mutated, orig, shell>>
Mutate == /\ phase = "stored" /\ ~mutated /\ fmt # "bincode"
          /\ \E d2 \in Mutations(doc) : doc' = d2
          /\ mutated' = TRUE /\ UNCHANGED <<mem, fmt, phase, orig, shell>>
Load == /\ phase = "stored" /\ mem' = LoadDoc(doc) /\ phase' = "loaded" /\ UNCHANGED <<doc, fmt, mutated, orig, shell>>
Resave == /\ phase = "loaded" /\ mem # Err /\ ~mutated /\ doc' = SaveDoc(mem) /\ phase' = "resaved" /\ UNCHANGED <<mem, fmt, mutated, orig, shell>>
Next == Save \/ Mutate \/ Load \/ Resave \/ NewFromArgs \/ SetState
LoadOfSave == phase = "loaded" /\ ~mutated => mem = Canon(orig)
CanonIdempotent == Canon(Canon(orig)) = Canon(orig)
SaveLoadSave == phase = "resaved" => doc = SaveDoc(orig)
MutatedLoadsSafely == phase = "loaded" /\ mutated => mem = Err \/ ShapeOKAbs(mem)
UniverseShapeOK == phase = "mem" => ShapeOKAbs(mem)
\* the constructor never refuses what __getnewargs__ gives it, and builds a well-shaped object (it need not equal the original)
ShellExists == phase = "shell" => shell # Err /\ ShapeOKAbs(shell) /\ shell.t = mem.t
\* ... and the lossy table is why __setstate__ is needed: without it member 7 would come back as member 6
LossyWitness == NewObj(NewArgs([t |-> "Enum", i |-> 7])) # [t |-> "Enum", i |-> 7]
ASSUME LossyWitness
===============================================================================
