CONSTANTS
  N = 4
  MaxQ = 3
  MaxOps = 2
INIT Init
NEXT Next
INVARIANTS ReadyOK DegenerateOnlyIfNotTree CountOnlyIfNotTree TreeAccepted SettleRejected RebuildSame
PROPERTIES IdxStable RefusedUnchanged QuotesStable
CHECK_DEADLOCK FALSE
