---------------------------------- MODULE FP ----------------------------------
(* IEEE-754 binary64 values for TLC.  A double is the tuple <<hi32, lo32>> of its  *)
(* bit pattern (two 32-bit signed ints), so it fingerprints, prints and travels     *)
(* through JSON exactly.  Every operator below is a signature only; TLC replaces    *)
(* it by the method of the same name in spec/java/FP.java (module override).        *)
(* Only primitives live in Java: + - * / pow exp log sqrt trunc, the standard       *)
(* normal cdf/pdf/quantile (implemented independently of the crate's statrs), and   *)
(* comparisons.  Every rule that decides a property is written in TLA+ on top.      *)
EXTENDS Integers, Sequences

FOfInt(n)        == CHOOSE x \in {} : TRUE   \* the double nearest the integer n
FOfRat(n, m)     == CHOOSE x \in {} : TRUE   \* (double) n / (double) m
FOfStr(s)        == CHOOSE x \in {} : TRUE   \* Double.parseDouble
FAdd(a, b)       == CHOOSE x \in {} : TRUE
FSub(a, b)       == CHOOSE x \in {} : TRUE
FMul(a, b)       == CHOOSE x \in {} : TRUE
FDiv(a, b)       == CHOOSE x \in {} : TRUE
FFma(a, b, c)    == CHOOSE x \in {} : TRUE   \* a*b + c with a single rounding
FNeg(a)          == CHOOSE x \in {} : TRUE
FAbs(a)          == CHOOSE x \in {} : TRUE
FPow(a, b)       == CHOOSE x \in {} : TRUE
FExp(a)          == CHOOSE x \in {} : TRUE
FLog(a)          == CHOOSE x \in {} : TRUE
FSqrt(a)         == CHOOSE x \in {} : TRUE
FTrunc(a)        == CHOOSE x \in {} : TRUE   \* round toward zero
FMax(a, b)       == CHOOSE x \in {} : TRUE
FNormCdf(a)      == CHOOSE x \in {} : TRUE
FNormPdf(a)      == CHOOSE x \in {} : TRUE
FInvNormCdf(a)   == CHOOSE x \in {} : TRUE
FLt(a, b)        == CHOOSE x \in BOOLEAN : TRUE
FLe(a, b)        == CHOOSE x \in BOOLEAN : TRUE
FEq(a, b)        == CHOOSE x \in BOOLEAN : TRUE   \* IEEE ==  (so -0.0 = 0.0, NaN # NaN)
FIsFinite(a)     == CHOOSE x \in BOOLEAN : TRUE
FIsNaN(a)        == CHOOSE x \in BOOLEAN : TRUE
FClose(a, b, scale) == CHOOSE x \in BOOLEAN : TRUE   \* |a-b| <= 1e-9*|scale| + 1e-12
FCloseTol(a, b, rel) == CHOOSE x \in BOOLEAN : TRUE  \* |a-b| <= rel*max(1,|a|,|b|)
FRelClose(a, b, rel) == CHOOSE x \in BOOLEAN : TRUE  \* |a-b| <= rel*max(|a|,|b|), no absolute floor
FStr(a)          == CHOOSE x \in {} : TRUE   \* decimal rendering, for messages only
FToInt(a)        == CHOOSE x \in {} : TRUE

\* ---- derived, pure TLA+ -------------------------------------------------------
FZ    == FOfInt(0)
FOne  == FOfInt(1)
FTwo  == FOfInt(2)
FHalf == FOfRat(1, 2)
FGt(a, b) == FLt(b, a)
FGe(a, b) == FLe(b, a)
FSq(a) == FMul(a, a)
FMax3(a, b, c) == FMax(a, FMax(b, c))
\* bit-identical (distinguishes -0.0 from 0.0; equal NaN payloads are equal)
FSame(a, b) == a = b

RECURSIVE FSumSeq(_)
FSumSeq(s) == IF s = <<>> THEN FZ ELSE FAdd(Head(s), FSumSeq(Tail(s)))
\* left fold from zero, as Iterator::sum does
RECURSIVE FFoldL(_, _)
FFoldL(acc, s) == IF s = <<>> THEN acc ELSE FFoldL(FAdd(acc, Head(s)), Tail(s))
FSumL(s) == FFoldL(FZ, s)
FDot(a, b) == FSumL([i \in 1..Len(a) |-> FMul(a[i], b[i])])
RECURSIVE FMaxAbsSeq(_)
FMaxAbsSeq(s) == IF s = <<>> THEN FZ ELSE FMax(FAbs(Head(s)), FMaxAbsSeq(Tail(s)))
===============================================================================
