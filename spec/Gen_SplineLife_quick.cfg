INIT GInit
NEXT GNext
CONSTANT MaxOps = 3
CHECK_DEADLOCK FALSE
