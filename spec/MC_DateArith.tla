------------------------------ MODULE MC_DateArith ------------------------------
(* Self-check of DateArith on every day of the supported range 1970-01-01..2200-12-31 *)
EXTENDS DateArith, TLC
VARIABLE d
Init == d \in RangeLo..RangeHi
Next == UNCHANGED d
Inv == RoundTrip(d) /\ Monotone(d) /\ (d = RangeLo => KnownDates)
================================================================================
