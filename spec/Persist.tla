---------------------------------- MODULE Persist ----------------------------------
(* Saving and loading of the library's serialisable objects (JSON through the JSON    *)
(* trait, the tagged from_json entry point, bincode for pickling).                    *)
(*                                                                                    *)
(* PROTOCOL.  What is stored is the object's fields, except:                          *)
(*   NamedCal  is stored by NAME only and rebuilt (parsed) on loading;                *)
(*   FXRates   is stored as its QUOTES and currency list only; the matrix is rebuilt  *)
(*             on loading with the first stored currency as base, at its default      *)
(*             first derivative order.                                                *)
(* Canon(o) is the object that loading a saved o must give: o itself, except that an   *)
(* FX market comes back at order 1.                                                    *)
(* ShapeViol(s) names the shape invariants a (loaded or constructed) object violates;  *)
(* a fallible entry point must return an error or an object with ShapeViol = {}.       *)
(* The operators work on the PROJECTIONS the harness logs (doubles as bit patterns).   *)
EXTENDS FP, Integers, Sequences, FiniteSets

\* ---------------------------------------------------------------- round trip (C16)
\* formats: "json" (JSON trait), "tagged" (the from_json entry point), "bincode" (the pickling state), and "pickle" - the
\* protocol Python runs on a pyo3 class: cls.__new__ applied to x.__getnewargs__() (which must not raise: outcome
\* "new_err"), then __setstate__(x.__getstate__()) on that object.  One rule for all of them.
AllClose(a, b) == Len(a) = Len(b) /\ \A k \in 1..Len(a) : FClose(a[k], b[k], b[k])
RoundTripOK(e) ==
  /\ e.o = "ok" /\ e.has_after
  /\ IF e.type = "FXRates"
     THEN /\ e.after.ccys = e.before.ccys                      \* same currencies in the same order (base first)
          /\ e.after.quotes = e.before.quotes                  \* the quotes, bit for bit, with their own variables
          /\ e.after.order = 1                                 \* rebuilt at the default first order
          /\ AllClose(e.after.re, e.before.re)                 \* rates agree in any state
          /\ (e.before.order = 1 => e.after = e.before /\ e.eq)   \* compared in that state
     ELSE /\ e.after = e.before                                \* every stored field and every query, bit for bit
          /\ e.eq                                              \* and the library's own == says so

\* ---------------------------------------------------------------- shape invariants (C20)
NumViol(s) == CASE s.t = "F" -> {}
                [] s.t = "Dual" -> IF s.nvars = s.nd THEN {} ELSE {"dual-length"}
                [] s.t = "Dual2" -> (IF s.nvars = s.nd THEN {} ELSE {"dual-length"}) \cup (IF s.r2 = s.nvars /\ s.c2 = s.nvars THEN {} ELSE {"dual2-shape"})
                [] OTHER -> {"not-a-number"}
ShapeViol(s) ==
  CASE s.t \in {"F", "Dual", "Dual2"} -> NumViol(s)
    [] s.t = "PPSpline" -> (IF s.k >= 1 /\ s.nt >= 2 /\ s.n = s.nt - s.k /\ s.n >= 0 THEN {} ELSE {"n-vs-knots"})   \* n = 0 (order = knot count) is accepted by PPSpline::new
                           \cup (IF s.sorted THEN {} ELSE {"knots-unsorted"})
                           \* (the length of a supplied coefficient array is NOT an invariant of the type: PPSpline::new does
                           \*  not check it, only csolve establishes it - so it is not demanded of a loaded object either)
                           \cup UNION {NumViol(s.c[i]) : i \in 1..Len(s.c)}
    [] s.t = "FXRates" -> (IF s.nccy = s.nq + 1 THEN {} ELSE {"currency-count"})
                          \cup (IF \A i \in 1..Len(s.ccylens) : s.ccylens[i] = 3 THEN {} ELSE {"currency-code"})
                          \* one settlement date (or none) for the whole market, as the constructor demands
                          \cup (IF "settles" \in DOMAIN s /\ \E i, j \in 1..Len(s.settles) : s.settles[i] # s.settles[j] THEN {"settlement-dates"} ELSE {})
                          \cup UNION {NumViol(s.quotes[i]) : i \in 1..Len(s.quotes)}
    \* (a curve's node count is not constrained by its constructors, so it is not demanded here)
    [] s.t = "Curve" -> UNION {NumViol(s.nodes[i]) : i \in 1..Len(s.nodes)}
    [] s.t = "NamedCal" -> IF s.ncals >= 1 THEN {} ELSE {"no-member"}
    [] s.t \in {"Cal", "UnionCal"} -> {}
    [] OTHER -> {"unknown-type"}
\* verdict for loading one (possibly mutated) document: a name for what went wrong, "" if nothing did
MutVerdict(e) == IF e.o = "panic" THEN "panic"
                 ELSE IF e.o = "err" THEN (IF e.how = "identity" THEN "valid-document-rejected" ELSE "")
                 ELSE IF ShapeViol(e.shape) # {} THEN "shape"
                 ELSE IF ~e.usable THEN "unusable"
                 ELSE ""
\* constructors: outcome class and shape
CtorWantOk(e) ==
  CASE e.fn = "Dual::try_new" -> e.nd = 0 \/ e.nd = e.nvars
    [] e.fn = "Dual2::try_new" -> (e.nd = 0 \/ e.nd = e.nvars) /\ (e.n2 = 0 \/ e.n2 = e.nvars * e.nvars)
    [] e.fn = "Ccy::try_new" -> e.nbytes = 3                       \* byte length of the LOWER-CASED code (what is stored)
    \* (a pair is two DISTINCT three-letter codes, whoever builds it: the pair constructor, the quote constructor, Python's FXRate(...))
    [] e.fn \in {"FXPair::try_new", "FXRate::try_new", "FXRate.__new__"} -> e.la = 3 /\ e.lb = 3 /\ ~e.same
    [] e.fn = "csolve" -> (e.ntau = e.n \/ (e.lsq /\ e.ntau > e.n)) /\ e.ny = e.ntau
    [] e.fn = "FXRates::try_new" -> e.tree
\* the asserting constructors return a plain value: a wrong shape is refused by aborting (that IS their refusal), a right
\* one must be built - what may never happen is a mis-shaped number coming out
Asserting == {"Dual::clone_from", "Dual2::clone_from", "PPSpline::new"}
AssertWantOk(e) == IF e.fn = "Dual::clone_from" THEN e.nd = e.nvars
                   ELSE IF e.fn = "PPSpline::new" THEN e.sorted                      \* a knot sequence is non-decreasing, end to end
                   ELSE e.nd = e.nvars /\ e.rows = e.nvars /\ e.cols = e.nvars
CtorVerdict(e) == IF e.fn \in Asserting THEN (IF AssertWantOk(e) /\ e.o # "ok" THEN "valid-arguments-rejected"
                                               ELSE IF ~AssertWantOk(e) /\ e.o = "ok" THEN "invalid-arguments-accepted" ELSE "")
                  ELSE IF e.o = "panic" THEN "panic"
                  ELSE IF CtorWantOk(e) /\ e.o # "ok" THEN "valid-arguments-rejected"
                  ELSE IF ~CtorWantOk(e) /\ e.o # "err" THEN "invalid-arguments-accepted"
                  ELSE IF e.o = "ok" /\ "shape" \in DOMAIN e /\ ShapeViol(e.shape) # {} THEN "shape"
                  ELSE IF e.o = "ok" /\ "stored_nbytes" \in DOMAIN e /\ e.stored_nbytes # 3 THEN "shape"     \* a stored currency code is 3 bytes
                  ELSE ""
===============================================================================
