------------------------------ MODULE MC_NamedCal ------------------------------
(* (M) for C06 / C07.                                                               *)
(*  - the name grammar as a transition system: tokens are appended one at a time;   *)
(*    at every reachable token sequence the split-based transcription of            *)
(*    NamedCal::try_new (ParseAlg) must equal the declarative grammar (ParseDecl).  *)
(*  - rule-level theorems for every year 1970..2200: fed = nyc minus Good Friday,   *)
(*    Good Friday is a Friday, observances never leave their year.                  *)
(*  - union semantics on tiny calendars: business in the union iff business in      *)
(*    every member (definitional, checked for the set-based formulation used in     *)
(*    trace validation).                                                            *)
EXTENDS NamedCal, TLC, SequencesExt
CONSTANTS Alphabet, MaxLen
VARIABLES mode, toks, y
vars == <<mode, toks, y>>
Init == \/ (mode = "grammar" /\ toks = <<>> /\ y = 0)
        \/ (mode = "rules" /\ toks = <<>> /\ y \in 1970..2200)
Next == /\ mode = "grammar" /\ Len(toks) < MaxLen
        /\ \E t \in Alphabet : toks' = Append(toks, t)
        /\ UNCHANGED <<mode, y>>
GrammarAgree == mode = "grammar" => ParseAlg(toks) = ParseDecl(toks)
\* accepted names have at least one member, and a settlement list only with exactly one pipe
GrammarShape == mode = "grammar" => LET p == ParseDecl(toks) IN
                  p.ok => /\ Len(p.cals) >= 1
                          /\ (p.has_settle <=> Cardinality(Pipes(toks)) = 1)
                          /\ (p.has_settle => Len(p.settle) >= 1)
                          /\ Len(p.cals) + Len(p.settle) = Cardinality(NamesOf(toks))
RuleTheorems == mode = "rules" =>
   /\ FedIsNycWithoutGoodFriday(y) /\ GoodFridayIsFriday(y)
   /\ \A n \in FullRuleNames : NoSpill(n, y)
   /\ \A n \in OneSidedNames : \A d \in OneSided(n, y) : Year(d) = y
\* (G) the token sequences, for replay
RECURSIVE Seqs(_)
Seqs(n) == IF n = 0 THEN {<<>>} ELSE LET S == Seqs(n - 1) IN S \cup {Append(s, t) : s \in {x \in S : Len(x) = n - 1}, t \in Alphabet}
CaseSeq == SetToSeq({[toks |-> s] : s \in Seqs(MaxLen) \ {<<>>}})
===============================================================================
