CONSTANTS
  N = 2
  Entries <- E2
  RHS <- R2
INIT Init
NEXT Next
INVARIANTS PivotNonZero RowEquivalent UpperSoFar Solved
CHECK_DEADLOCK FALSE
