CONSTANTS
  MaxN = 4
  MaxSwitch = 3
  MaxLen = 24
INIT Init
NEXT Next
CHECK_DEADLOCK FALSE
