CONSTANTS
  N = 4
  MaxQ = 3
  MaxOps = 1
SPECIFICATION Spec
PROPERTIES AlwaysResolves
CHECK_DEADLOCK FALSE
