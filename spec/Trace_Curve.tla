------------------------------- MODULE Trace_Curve -------------------------------
(* (V) for C11 / C12: recorded histories of real curves (construction, look-ups,      *)
(* derivative-order switches) validated against Curve.tla.  One behaviour per         *)
(* history; each step consumes one event; after every step the logged node state and  *)
(* every logged look-up must be what the specification derives:                       *)
(*   nodes   = the supplied nodes sorted by date, tagged / converted per order        *)
(*   idx     = IndexLeftDecl                                                          *)
(*   value   = the rule's closed form on the two nodes of that interval, including    *)
(*             its gradient and Hessian with respect to every node variable (C12)     *)
(*   index value = base / value, 0 before the first node, error without a base        *)
(* C11 judges values on the state after construction; C12 additionally judges         *)
(* sensitivities and every state after a switch.                                      *)
EXTENDS Curve, Json, IOUtils, TLC
Hist == ndJsonDeserialize(IOEnv.TRACE)
Prop == IOEnv.PROP
Sens == Prop # "C11"

\* sort supplied nodes by day (distinct days)
RECURSIVE SortNodes(_, _)
SortNodes(S, acc) == IF S = {} THEN acc
                     ELSE LET m == CHOOSE x \in S : \A y \in S : x.d <= y.d IN SortNodes(S \ {m}, Append(acc, m))
Sorted(nodes) == SortNodes({nodes[i] : i \in 1..Len(nodes)}, <<>>)
DistinctDays(nodes) == \A i, j \in 1..Len(nodes) : i # j => nodes[i].d # nodes[j].d

\* expected node list after construction
ExpectedNew(e) == LET s == Sorted(e.nodes) IN
                  IF e.via = "Curve" THEN [i \in 1..Len(s) |-> [d |-> s[i].d, v |-> SetOrderNode(s[i].v, e.ad, e.id, i - 1)]]
                  ELSE s                                     \* CurveDF is given nodes of the right kind already
NodesOK(logged, want) == /\ Len(logged) = Len(want)
                         /\ \A i \in 1..Len(want) : logged[i].d = want[i].d /\ SameNode(logged[i].v, want[i].v)
KindOfOrder(o) == IF o = 0 THEN "F" ELSE IF o = 1 THEN "D1" ELSE "D2"

\* Rounding scale of a look-up.  The crate forms an interpolated quantity as y1 + (y2 - y1) * w, so a derivative that
\* belongs to the LEFT node only is (1 - w) * g1 computed as g1 - g1 * w: close to the right node it is tiny while its
\* rounding error is that of the full-weight g1 (observed: relative 1.4e-9 at weight 6e-8, one minute before a node of
\* a thirty-year interval).  Every first-order entry is therefore compared on the scale of the whole gradient, every
\* second-order entry on the scale of the whole Hessian (and of the squared gradient over the value, for the rules that
\* pass through exp / log) - still a relative 1e-9, so a wrong factor, sign or index remains an error of order one.
Widen(W, NS) ==
  LET RECURSIVE SumG(_)
      SumG(T) == IF T = {} THEN FZ ELSE LET x == CHOOSE x \in T : TRUE IN FAdd(FAbs(W.g[x]), SumG(T \ {x}))
      RECURSIVE SumH(_)
      SumH(T) == IF T = {} THEN FZ ELSE LET x == CHOOSE x \in T : TRUE IN FAdd(FAbs(W.h[x]), SumH(T \ {x}))
      gs == SumG(NS)
      hs == SumH(NS \X NS)
      g2 == IF FEq(W.re, FZ) THEN FZ ELSE FDiv(FMul(gs, gs), FAbs(W.re))
  IN [W EXCEPT !.sg = [n \in NS |-> FAdd(W.sg[n], gs)],
               !.sh = [p \in NS \X NS |-> FAdd(W.sh[p], FAdd(hs, g2))]]
\* one look-up
QueryOK(rule, nodes, ib, tags, q) ==
  LET NS == NodeNames(nodes) \cup (IF IsNum(q.val) THEN NamesOf(q.val) ELSE {})
      W == Widen(Value(rule, nodes, q.x, NS), NS)
      tame == FIsFinite(W.re) /\ FLt(FAbs(W.re), Big) /\ FLt(FOfRat(1, 1000000), FAbs(W.re))
  IN /\ q.idx = IndexLeftDecl(Days(nodes), q.x)
     /\ (tame => /\ q.o = "ok" /\ IsNum(q.val) /\ q.val.k = nodes[1].v.k
                 /\ FClose(q.val.re, W.re, W.sre)
                 /\ (Sens => CloseTo(q.val, W, NS) /\ ShapeOK(q.val))
                 \* "the value at a node date is that node's value" - the whole number the node holds, derivatives included
                 \* (for every property, C11 too)
                 /\ ((\E i \in 1..Len(nodes) : nodes[i].d = q.x) => CloseTo(q.val, W, NS) /\ ShapeOK(q.val))
                 \* the same sensitivities read BY NODE TAG in node order (gradient1 / gradient2 with a requested list):
                 \* a read-back copies, so it agrees bit for bit with the stored derivatives by name - zero for a tag the
                 \* value does not carry, and the full (symmetric) matrix at second order
                 /\ (Sens /\ "gt" \in DOMAIN q => LET T == tags n == Len(tags) IN
                       /\ Len(q.gt) = n /\ \A i \in 1..n : q.gt[i] = G(q.val, T[i])
                       /\ Len(q.ht) = n /\ \A i \in 1..n : Len(q.ht[i]) = n /\ \A j \in 1..n : q.ht[i][j] = H(q.val, T[i], T[j]))
                 \* index value = base / value, or zero before the first node; an error without a base
                 /\ IF ~("ivo" \in DOMAIN q) THEN TRUE
                    ELSE IF ib = <<>> THEN q.ivo = "err"
                    ELSE IF q.x < nodes[1].d THEN q.ivo = "ok" /\ q.iv.k = "F" /\ q.iv.re = FZ
                    ELSE /\ q.ivo = "ok" /\ IsNum(q.iv)
                         /\ LET IV == Widen(Div(Const(ib[1], NS), Strip(W), NS), NS) IN
                            FClose(q.iv.re, IV.re, IV.sre) /\ (Sens => CloseTo(q.iv, IV, NS)))
StateOK(rule, ib, want, s) ==
  /\ NodesOK(s.nodes, want)
  /\ \A k \in 1..Len(s.q) : QueryOK(rule, s.nodes, ib, IF "tags" \in DOMAIN s THEN s.tags ELSE <<>>, s.q[k])
\* values never change when the order is switched (compared with the previous logged state, bit for bit on nodes,
\* to rounding on look-ups because first- and second-order arithmetic may round reciprocals differently)
SameValues(a, b) == /\ Len(a.q) = Len(b.q)
                    /\ \A k \in 1..Len(a.q) : (IsNum(a.q[k].val) /\ IsNum(b.q[k].val)) =>
                          FClose(a.q[k].val.re, b.q[k].val.re, b.q[k].val.re)
                    /\ \A i \in 1..Len(a.nodes) : a.nodes[i].v.re = b.nodes[i].v.re /\ a.nodes[i].d = b.nodes[i].d

VARIABLES h, l, ok, why
vars == <<h, l, ok, why>>
Alias == [h |-> h, l |-> l, ok |-> ok, why |-> why]
Ev == Hist[h].ev[l + 1]
First == Hist[h].ev[1]
Init == h \in 1..Len(Hist) /\ l = 0 /\ ok = TRUE /\ why = "init"
New == /\ l = 0 /\ Ev.op = "new"
       /\ IF Len(Ev.nodes) < 2 \/ ~DistinctDays(Ev.nodes) THEN ok' = TRUE /\ why' = "new:not judged (fewer than two distinct nodes)"
          ELSE ok' = (Ev.o = "ok" /\ Ev.state.ad = Ev.ad /\ StateOK(Ev.rule, Ev.ib, ExpectedNew(Ev), Ev.state)) /\ why' = "new"
       /\ l' = 1 /\ UNCHANGED h
Switch == /\ l > 0 /\ ok /\ l < Len(Hist[h].ev) /\ Ev.op = "set_order" /\ Prop # "C11"
          /\ LET prev == Hist[h].ev[l].state
                 want == [i \in 1..Len(prev.nodes) |-> [d |-> prev.nodes[i].d, v |-> SetOrderNode(prev.nodes[i].v, Ev.order, First.id, i - 1)]]
             IN ok' = (Ev.o = "ok" /\ Ev.state.ad = Ev.order /\ StateOK(First.rule, First.ib, want, Ev.state) /\ SameValues(Ev.state, prev))
          /\ why' = "set_order" /\ l' = l + 1 /\ UNCHANGED h
IndexLeft == /\ l = 0 /\ Ev.op = "index_left"
             /\ LET lst == [k \in 1..Ev.n |-> 2 * k] want == IndexLeftDecl(lst, Ev.rank) IN
                ok' = (Ev.i64 = want /\ Ev.f64 = want /\ ("f64c" \in DOMAIN Ev => Ev.f64c = want + Ev.c))   \* left_count is an offset
             /\ why' = "index_left" /\ l' = 1 /\ UNCHANGED h
\* a node set observed mid-life (the trace of the repository's own tests records every look-up an interpolation rule
\* answers, with the nodes it was given): the nodes must be in date order and every look-up must be the rule's answer
DateOrdered(nodes) == \A i \in 1..(Len(nodes) - 1) : nodes[i].d < nodes[i + 1].d
Given == /\ l = 0 /\ Ev.op = "given"
         /\ IF Len(Ev.state.nodes) < 2 THEN ok' = TRUE /\ why' = "given:not judged (fewer than two nodes)"
            ELSE ok' = (DateOrdered(Ev.state.nodes) /\ StateOK(Ev.rule, Ev.ib, Ev.state.nodes, Ev.state)) /\ why' = "given"
         /\ l' = 1 /\ UNCHANGED h
Finish == (l = Len(Hist[h].ev) \/ ~ok \/ (Prop = "C11" /\ l >= 1)) /\ UNCHANGED vars
Next == New \/ Switch \/ IndexLeft \/ Given \/ Finish
Accepted == ok
===============================================================================
