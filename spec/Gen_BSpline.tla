------------------------------- MODULE Gen_BSpline -------------------------------
EXTENDS MC_BSpline, Json, IOUtils
ASSUME ndJsonSerialize(IOEnv.OUT, CaseSeq)
ASSUME PrintT(<<"GEN", Len(CaseSeq)>>)
GInit == k = 1 /\ mult = <<>> /\ xi = 0
GNext == UNCHANGED vars
===============================================================================
