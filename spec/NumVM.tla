---------------------------------- MODULE NumVM ----------------------------------
(* The number types of rust/dual as a register machine: a program is a list of leaf  *)
(* constructions followed by instructions, one crate call each; an execution is the  *)
(* list of register contents.  This module gives the meaning of every instruction in *)
(* terms of DualAlgebra (by-name numbers), so that                                   *)
(*   - MC_NumVM can explore programs and check the rules against calculus, and       *)
(*   - Trace_NumVM can judge a recorded execution of the real crate step by step,    *)
(*     each step against the LOGGED operands (rounding never accumulates).           *)
(* Verdicts: "ok", "bad", or "skip" (operands outside the differentiable / tame      *)
(* domain, or an operand form the crate does not offer).                              *)
(* Register contents: numbers [k \in {"F","D1","D2"}, re, vars, d, raw2, d2, arc]     *)
(* (+ field n when wrapped in the generic Number container), booleans [k="B", b],     *)
(* vectors [k="V", v], matrices [k="M", m], lists of numbers [k="L", l].              *)
EXTENDS DualAlgebra, Integers, Sequences

Has(r, f) == f \in DOMAIN r
Wrapped(x) == Has(x, "n")
Ones(n) == [i \in 1..n |-> FOne]
Zeros(n) == [i \in 1..n |-> FZ]
ZeroMat(n) == [i \in 1..n |-> Zeros(n)]
NL(P) == Len(P.leaves)
Reg(P, i) == IF i <= NL(P) THEN P.leaves[i].res ELSE P.steps[i - NL(P)].res
V(b) == IF b THEN "ok" ELSE "bad"

\* ------------------------------------------------------------------ domains
IsIntegral(p) == FEq(FTrunc(p), p)
Frac(q) == FAbs(FSub(q, FTrunc(q)))
Eps6 == FOfRat(1, 1000000)
InDomUn(op, a, p) ==
  /\ Tame(a)
  /\ CASE op = "pow" -> IF IsIntegral(p) /\ FLe(FTwo, p) THEN TRUE                \* x^2, x^3 ... are twice differentiable everywhere, zero included
                        ELSE IF IsIntegral(p) THEN FLt(Small, FAbs(a.re)) ELSE FLt(Small, a.re)
       [] op = "exp" -> FLt(FAbs(a.re), FOfInt(20))
       [] op = "log" -> FLt(Small, a.re)
       [] op = "ncdf" -> FLt(FAbs(a.re), FOfRat(17, 2))
       [] op = "incdf" -> FLt(FZ, a.re) /\ FLt(a.re, FOne)                      \* the whole open interval: the quantile is smooth up to both ends
       [] op = "abs" -> FLt(Tiny, FAbs(a.re))
       [] OTHER -> TRUE
InDomBin(op, a, b) ==
  \* the remainder is piecewise linear: it is judged for large operands too (quotients far beyond the 32-bit integers)
  /\ IF op = "rem" THEN TameBy(a, Huge) /\ TameBy(b, Huge) ELSE Tame(a) /\ Tame(b)
  /\ (op \in {"div", "rem"} => FLt(Small, FAbs(b.re)))
  \* the truncated quotient is locally constant except where a/b crosses an integer; an EXACT integer quotient is
  \* still unambiguous (trunc is exact), quotients within 1e-6 of an integer are not judged
  /\ (op = "rem" => LET q == FDiv(a.re, b.re) f == Frac(q) IN
                       (FEq(f, FZ) /\ FEq(FFma(q, b.re, FNeg(a.re)), FZ))   \* an integer quotient counts only if q*b = a EXACTLY (fused, one rounding):
                                                                         \* 1.0/0.1 rounds onto 10 but the true quotient is below it, and there the float
                                                                         \* remainder (0.0999..) and a - trunc(q)*b (0) are both right answers
                       \/ (FLt(Eps6, f) /\ FLt(f, FSub(FOne, Eps6))))
RuleBin(op, A, B, NS) == CASE op = "add" -> Add(A, B, NS) [] op = "sub" -> Sub(A, B, NS) [] op = "mul" -> Mul(A, B, NS)
                           [] op = "div" -> Div(A, B, NS) [] op = "rem" -> Rem(A, B, NS)
RuleUn(op, A, p, NS) == CASE op = "neg" -> Neg(A, NS) [] op = "pow" -> Pow(A, p, NS) [] op = "exp" -> Exp(A, NS)
                          [] op = "log" -> Log(A, NS) [] op = "ncdf" -> NormCdf(A, NS) [] op = "incdf" -> InvNormCdf(A, NS)
                          [] op = "abs" -> Abs(A, NS)

\* "the same value as plain floating-point evaluation": the harness evaluates the same operation on the operands'
\* values with the crate's OWN float path; the two must agree to a few ulps, RELATIVELY (so that a dual-number
\* variant with a less accurate formula in a tail is seen even where the value is 1e-9)
PlainOK(st) == ("plain" \in DOMAIN st /\ IsNum(st.res) /\ FIsFinite(st.plain)) => FRelClose(st.res.re, st.plain, FOfStr("1e-12"))
\* ------------------------------------------------------------------ arithmetic
\* Mixing first and second order inside the generic container is REFUSED (a panic), never computed.
BinVerdict(op, a, b, st) ==
  IF ~IsNum(a) \/ ~IsNum(b) THEN "skip" ELSE
  LET ra == Rank(a.k) rb == Rank(b.k) IN
  IF ra > 0 /\ rb > 0 /\ ra # rb THEN (IF Wrapped(a) /\ Wrapped(b) THEN V(st.o = "panic") ELSE "skip")
  ELSE IF st.o = "skip" THEN "skip"
  ELSE IF ~InDomBin(op, a, b) THEN "skip"
  ELSE IF st.o # "ok" THEN "bad"
  ELSE LET res == st.res IN
       IF ~IsNum(res) THEN "bad" ELSE
       LET NS == NamesOf(a) \cup NamesOf(b) \cup NamesOf(res)
           W == RuleBin(op, Abstract(a, NS), Abstract(b, NS), NS)
       IN V(/\ res.k = KindOfRank(MaxI(ra, rb))
            /\ Wrapped(res) = (Wrapped(a) \/ Wrapped(b))
            /\ ShapeOK(res)
            /\ NamesOf(res) = NamesOf(a) \cup NamesOf(b)          \* exactly the union of the operands' names
            /\ CloseTo(res, W, NS) /\ PlainOK(st))
UnVerdict(op, a, p, st) ==
  IF ~IsNum(a) \/ st.o = "skip" THEN "skip"
  ELSE IF ~InDomUn(op, a, p) THEN "skip"
  ELSE IF st.o # "ok" THEN "bad"
  ELSE LET res == st.res IN
       IF ~IsNum(res) THEN "bad" ELSE
       LET NS == NamesOf(a) \cup NamesOf(res)
           W == RuleUn(op, Abstract(a, NS), p, NS)
       IN V(/\ res.k = a.k /\ Wrapped(res) = Wrapped(a) /\ ShapeOK(res)
            /\ NamesOf(res) = NamesOf(a)
            /\ CloseTo(res, W, NS) /\ PlainOK(st))

\* ------------------------------------------------------------------ comparisons (C19) and equality (C03)
AllZeroDerivs(x, NS) == \A n \in NS : FEq(G(x, n), FZ) /\ \A m \in NS : FEq(H(x, n, m), FZ)
EqByName(a, b) == LET NS == NamesOf(a) \cup NamesOf(b) IN
                  /\ FEq(a.re, b.re)
                  /\ \A n \in NS : FEq(G(a, n), G(b, n))            \* a missing name and a zero derivative are the same thing
                  /\ \A n, m \in NS : FEq(H(a, n, m), H(b, n, m))
CmpWant(op, a, b) == CASE op = "lt" -> FLt(a.re, b.re) [] op = "le" -> FLe(a.re, b.re)
                       [] op = "gt" -> FLt(b.re, a.re) [] op = "ge" -> FLe(b.re, a.re)
                       [] op = "eq" -> EqByName(a, b) [] op = "ne" -> ~EqByName(a, b)
CmpVerdict(op, a, b, st) ==
  IF ~IsNum(a) \/ ~IsNum(b) THEN "skip" ELSE
  LET ra == Rank(a.k) rb == Rank(b.k) IN
  IF ra > 0 /\ rb > 0 /\ ra # rb THEN (IF Wrapped(a) /\ Wrapped(b) THEN V(st.o = "panic") ELSE "skip")
  ELSE IF st.o = "skip" THEN "skip"
  ELSE IF ~(CmpTame(a) /\ CmpTame(b)) THEN "skip"
  ELSE V(st.o = "ok" /\ st.res.k = "B" /\ st.res.b = CmpWant(op, a, b))

\* ------------------------------------------------------------------ sums and identities
RECURSIVE FoldAdd(_, _, _, _)
FoldAdd(P, idx, acc, NS) == IF idx = <<>> THEN acc
                            ELSE LET W == Add(acc, Abstract(Reg(P, Head(idx)), NS), NS) IN
                                 FoldAdd(P, Tail(idx), [re |-> W.re, g |-> W.g, h |-> W.h], NS)
RECURSIVE FoldAbs(_, _, _, _)
FoldAbs(P, idx, acc, NS) == IF idx = <<>> THEN acc
                            ELSE LET x == Abstract(Reg(P, Head(idx)), NS) IN
                                 FoldAbs(P, Tail(idx), [re |-> FAdd(acc.re, FAbs(x.re)), g |-> [n \in NS |-> FAdd(acc.g[n], FAbs(x.g[n]))],
                                                        h |-> [p \in NS \X NS |-> FAdd(acc.h[p], FAbs(x.h[p]))]], NS)
SumVerdict(P, ins, st) ==
  LET idx == ins.regs
      NS == UNION {NamesOf(Reg(P, idx[i])) : i \in 1..Len(idx)} \cup (IF IsNum(st.res) THEN NamesOf(st.res) ELSE {})
      kinds == {Reg(P, idx[i]).k : i \in 1..Len(idx)}
  IN IF \E i \in 1..Len(idx) : ~IsNum(Reg(P, idx[i])) \/ ~Tame(Reg(P, idx[i])) THEN "skip"
     ELSE IF {"D1", "D2"} \subseteq kinds THEN V(st.o = "panic")        \* only reachable inside the container
     ELSE IF st.o # "ok" \/ ~IsNum(st.res) THEN "bad"
     ELSE LET W == FoldAdd(P, idx, Const(FZ, NS), NS)                   \* adding left to right from zero
              S == FoldAbs(P, idx, Const(FZ, NS), NS)
          IN V(/\ ShapeOK(st.res)
               /\ st.res.re = W.re                                               \* the VALUE is the left fold from zero, bit for bit (a pairwise / reordered reduction rounds differently)
               /\ NamesOf(st.res) = UNION {NamesOf(Reg(P, idx[i])) : i \in 1..Len(idx)}
               /\ CloseTo(st.res, [re |-> W.re, g |-> W.g, h |-> W.h, sre |-> S.re, sg |-> S.g, sh |-> S.h], NS))
ConstVerdict(op, ins, st) ==
  LET want == IF op = "zero" THEN FZ ELSE FOne r == st.res IN
  V(st.o = "ok" /\ IsNum(r) /\ r.re = want /\ NamesOf(r) = {} /\ ShapeOK(r)
    /\ (ins.kind = "N" => Wrapped(r) /\ r.k = "F") /\ (ins.kind # "N" => r.k = ins.kind))

\* ------------------------------------------------------------------ conversions (C18)
SameStored(x, y) == /\ x.k = y.k /\ x.re = y.re
                    /\ (x.k # "F" => x.vars = y.vars /\ x.d = y.d)
                    /\ (x.k = "D2" => x.raw2 = y.raw2)
Lowered(x, y) == y.k = "D1" /\ y.re = x.re /\ y.vars = x.vars /\ y.d = x.d          \* drops only the Hessian
Raised(x, y) == y.k = "D2" /\ y.re = x.re /\ y.vars = x.vars /\ y.d = x.d /\ y.raw2 = ZeroMat(Len(x.vars))
Bare(c, k, y) == y.k = k /\ y.re = c /\ (k # "F" => y.vars = <<>> /\ y.d = <<>>) /\ (k = "D2" => y.raw2 = <<>>)
RECURSIVE DedupAcc(_, _)
DedupAcc(s, acc) == IF s = <<>> THEN acc ELSE DedupAcc(Tail(s), IF Head(s) \in SeqToSet(acc) THEN acc ELSE Append(acc, Head(s)))
Dedup(s) == DedupAcc(s, <<>>)            \* first occurrence kept, as IndexSet::from_iter does
Fresh(c, k, vars, y) == /\ y.k = k /\ y.re = c /\ y.vars = vars /\ y.d = Ones(Len(vars))        \* unit sensitivity to exactly the given names
                        /\ (k = "D2" => y.raw2 = ZeroMat(Len(vars)))
ConvVerdict(op, a, st) ==
  IF ~IsNum(a) \/ st.o = "skip" THEN "skip"
  ELSE IF st.o # "ok" \/ ~IsNum(st.res) THEN "bad"
  ELSE LET y == st.res IN
  CASE op = "wrap" -> V(Wrapped(y) /\ SameStored(a, y))
    [] op = "unwrap" -> V(~Wrapped(y) /\ SameStored(a, y))
    [] op = "to_n" -> V(Wrapped(y) /\ SameStored(a, y))
    [] op = "to_f64" -> V(y.k = "F" /\ y.re = a.re /\ ~Wrapped(y))
    [] op = "to_d1" -> V(~Wrapped(y) /\ ShapeOK(y) /\
                         (CASE a.k = "F" -> Bare(a.re, "D1", y) [] a.k = "D1" -> SameStored(a, y) [] a.k = "D2" -> Lowered(a, y)))
    [] op = "to_d2" -> V(~Wrapped(y) /\ ShapeOK(y) /\
                         (CASE a.k = "F" -> Bare(a.re, "D2", y) [] a.k = "D1" -> Raised(a, y) [] a.k = "D2" -> SameStored(a, y)))
SetOrderVerdict(ins, a, st) ==
  IF ~IsNum(a) \/ st.o = "skip" THEN "skip"
  ELSE IF st.o # "ok" \/ ~IsNum(st.res) THEN "bad"
  ELSE LET y == st.res o == ins.order IN
  V(/\ Wrapped(y) /\ ShapeOK(y)
    /\ CASE o = 0 -> y.k = "F" /\ y.re = a.re                                   \* lowering to float returns the value
         [] o = 1 -> (CASE a.k = "F" -> Fresh(a.re, "D1", Dedup(ins.vars), y) [] a.k = "D1" -> SameStored(a, y) [] a.k = "D2" -> Lowered(a, y))
         [] o = 2 -> (CASE a.k = "F" -> Fresh(a.re, "D2", Dedup(ins.vars), y) [] a.k = "D1" -> Raised(a, y) [] a.k = "D2" -> SameStored(a, y)))

\* ------------------------------------------------------------------ variable lists (C03) and read-back (C17)
\* transcription of Vars::vars_cmp, used only to certify that every relationship class was exercised
Classify(a, b) == IF a.arc = b.arc THEN "ArcEquivalent"
                  ELSE IF a.vars = b.vars THEN "ValueEquivalent"
                  ELSE IF Len(a.vars) >= Len(b.vars) /\ NamesOf(b) \subseteq NamesOf(a) THEN "Superset"
                  ELSE IF Len(a.vars) < Len(b.vars) /\ NamesOf(a) \subseteq NamesOf(b) THEN "Subset"
                  ELSE "Difference"
VarsVerdict(op, a, b, st) ==
  IF ~(a.k \in {"D1", "D2"}) \/ a.k # b.k \/ st.o = "skip" THEN "skip"
  ELSE IF st.o # "ok" THEN "bad"
  ELSE LET y == st.res NS == NamesOf(a) \cup NamesOf(b) IN
  CASE op = "vars_cmp" -> "ok"                                   \* recorded, not judged: the property is about results
    [] op = "ptr_eq" -> V(y.k = "B" /\ y.b = (a.arc = b.arc))
    [] op = "to_new_vars" -> V(/\ IsNum(y) /\ y.k = a.k /\ ShapeOK(y) /\ y.vars = b.vars /\ y.arc = b.arc
                               /\ SameByName(y, a, NamesOf(b)))      \* names of b keep a's derivatives, other names are dropped
    [] op = "union_l" -> V(IsNum(y) /\ y.k = a.k /\ ShapeOK(y) /\ NamesOf(y) = NS /\ SameByName(y, a, NS))
    [] op = "union_r" -> V(IsNum(y) /\ y.k = a.k /\ ShapeOK(y) /\ NamesOf(y) = NS /\ SameByName(y, b, NS))
ReadVerdict(op, ins, a, st) ==
  IF ~(a.k \in {"D1", "D2"}) \/ st.o = "skip" THEN "skip"
  ELSE IF st.o # "ok" THEN "bad"
  ELSE LET y == st.res nm == ins.names n == Len(ins.names) IN
  CASE op = "gradient1" -> V(y.k = "V" /\ Len(y.v) = n /\ \A i \in 1..n : y.v[i] = G(a, nm[i]))     \* in exactly the order asked for
    [] op = "gradient2" -> V(y.k = "M" /\ Len(y.m) = n /\ \A i \in 1..n : Len(y.m[i]) = n /\ \A j \in 1..n : y.m[i][j] = H(a, nm[i], nm[j]))
    [] op = "manifold" -> V(/\ y.k = "L" /\ Len(y.l) = n
                            /\ \A i \in 1..n : LET e == y.l[i] IN
                                 /\ e.k = "D2" /\ ShapeOK(e) /\ e.vars = nm
                                 /\ e.re = G(a, nm[i])                                               \* value = first derivative
                                 /\ \A j \in 1..n : e.d[j] = H(a, nm[i], nm[j])                      \* own gradient = Hessian row
                                 /\ e.raw2 = ZeroMat(n))

\* ------------------------------------------------------------------ other unary results
MiscVerdict(op, a, st) ==
  IF ~IsNum(a) \/ st.o = "skip" THEN "skip"
  ELSE IF st.o # "ok" THEN "bad"
  ELSE LET y == st.res IN
  CASE op = "signum" -> IF FEq(a.re, FZ) THEN "skip" ELSE
                        V(IsNum(y) /\ y.k = a.k /\ NamesOf(y) = {} /\ y.re = (IF FLt(FZ, a.re) THEN FOne ELSE MOne))
    [] op = "is_positive" -> IF FEq(a.re, FZ) THEN "skip" ELSE V(y.k = "B" /\ y.b = FLt(FZ, a.re))
    [] op = "is_negative" -> IF FEq(a.re, FZ) THEN "skip" ELSE V(y.k = "B" /\ y.b = FLt(a.re, FZ))
    [] op = "is_zero" -> V(y.k = "B" /\ y.b = (FEq(a.re, FZ) /\ AllZeroDerivs(a, NamesOf(a))))
AbsSubVerdict(a, b, st) ==
  IF ~IsNum(a) \/ ~IsNum(b) THEN "skip" ELSE
  LET ra == Rank(a.k) rb == Rank(b.k) IN
  IF ra > 0 /\ rb > 0 /\ ra # rb THEN (IF Wrapped(a) /\ Wrapped(b) THEN V(st.o = "panic") ELSE "skip")
  ELSE IF st.o = "skip" \/ ~(Tame(a) /\ Tame(b)) THEN "skip"
  ELSE IF st.o # "ok" \/ ~IsNum(st.res) THEN "bad"
  ELSE IF FLe(a.re, b.re) THEN V(st.res.re = FZ /\ NamesOf(st.res) = {})
  ELSE BinVerdict("sub", a, b, st)

\* ------------------------------------------------------------------ leaves (constructors)
RestrictOK(y, src, other) == /\ y.vars = other.vars /\ y.arc = other.arc
                             /\ \A n \in NamesOf(other) : G(y, n) = G(src, n)
LeafVerdictOf(P, lf) ==
  LET s == lf.spec y == lf.res
      vars == IF Has(s, "vars") THEN Dedup(s.vars) ELSE <<>>          \* repeated names are dropped before anything else
      d == IF Has(s, "d") /\ s.d # <<>> THEN s.d ELSE Ones(Len(vars))
      n == Len(vars)
      h == IF Has(s, "d2half") /\ s.d2half # <<>> THEN s.d2half ELSE ZeroMat(n)
      hcount == IF Has(s, "d2half") THEN LET RECURSIVE Cnt(_) Cnt(k) == IF k > Len(s.d2half) THEN 0 ELSE Len(s.d2half[k]) + Cnt(k + 1) IN Cnt(1) ELSE 0
  IN
  CASE s.t = "F" -> V(lf.o = "ok" /\ y.k = "F" /\ y.re = s.re)
    [] s.t = "D1new" -> V(lf.o = "ok" /\ ShapeOK(y) /\ Fresh(s.re, "D1", vars, y))
    [] s.t = "D2new" -> V(lf.o = "ok" /\ ShapeOK(y) /\ Fresh(s.re, "D2", vars, y))
    [] s.t = "D1" -> IF Len(d) # n THEN V(lf.o = "err")                          \* mismatched lengths are reported as errors
                     ELSE V(lf.o = "ok" /\ ShapeOK(y) /\ y.k = "D1" /\ y.re = s.re /\ y.vars = vars /\ y.d = d)
    [] s.t = "D2" -> IF Len(d) # n \/ (hcount # 0 /\ hcount # n * n) THEN V(lf.o = "err")
                     ELSE IF hcount # 0 /\ \E k \in 1..Len(h) : Len(h[k]) # n THEN "skip"      \* ragged input: flat count right, rows wrong
                     ELSE V(lf.o = "ok" /\ ShapeOK(y) /\ y.k = "D2" /\ y.re = s.re /\ y.vars = vars /\ y.d = d /\ y.raw2 = h)
    [] s.t \in {"D1from", "D2from", "D1newfrom", "D2newfrom"} ->
         LET other == Reg(P, s.from)
             src == [k |-> IF s.t \in {"D1from", "D1newfrom"} THEN "D1" ELSE "D2", re |-> s.re, vars |-> vars,
                     d |-> (IF s.t \in {"D1newfrom", "D2newfrom"} THEN Ones(n) ELSE d), raw2 |-> h]
         IN IF ~(other.k \in {"D1", "D2"}) THEN "skip"
            ELSE IF Len(src.d) # n THEN V(lf.o = "err")
            ELSE IF src.k = "D2" /\ hcount # 0 /\ hcount # n * n THEN V(lf.o = "err")      \* a second-order array of the wrong size is an error too
            ELSE IF src.k = "D2" /\ hcount # 0 /\ \E k \in 1..Len(h) : Len(h[k]) # n THEN "skip"
            ELSE V(lf.o = "ok" /\ ShapeOK(y) /\ y.k = src.k /\ y.re = s.re /\ RestrictOK(y, src, other)
                   /\ (y.k = "D2" => \A a \in NamesOf(other), b \in NamesOf(other) : H(y, a, b) = H(src, a, b)))
    [] s.t \in {"D1clone", "D2clone"} ->
         LET other == Reg(P, s.from) IN
         IF ~(other.k \in {"D1", "D2"}) THEN "skip"
         ELSE IF Len(d) # Len(other.vars) THEN V(lf.o \in {"panic", "err"})
         ELSE V(lf.o = "ok" /\ y.vars = other.vars /\ y.arc = other.arc /\ y.d = d /\ y.re = s.re)
LeafVerdict(P, i) == LeafVerdictOf(P, P.leaves[i])

\* ------------------------------------------------------------------ container = contained (C18)
\* "Arithmetic on the generic number container gives the same result as the same arithmetic on the contained types":
\* a step whose operands are wrap-copies has a TWIN - the same operation, same operand forms, on the bare registers the
\* wraps were made from (floats stay bare in both); where the program contains it the two results must be stored
\* identically, bit for bit (this also covers operands for which a % b's float remainder and a - trunc(a/b)*b differ)
WrapSrc(P, r) == IF r <= NL(P) THEN r
                 ELSE LET st == P.steps[r - NL(P)] IN IF st.ins.op = "wrap" /\ st.o = "ok" THEN st.ins.a ELSE r
TwinOf(P, s) ==
  LET ins == P.steps[s].ins IN
  IF Has(ins, "a") /\ ~Has(ins, "b") /\ ins.op \in {"neg", "abs", "signum", "is_positive", "is_negative", "is_zero", "exp", "log", "ncdf", "incdf", "pow"} THEN
       \* a unary operation on a wrap-copy: its twin is the same operation (same form, same exponent) on the bare register
       LET ua == WrapSrc(P, ins.a)
           C == {t \in 1..Len(P.steps) : /\ t # s /\ P.steps[t].ins.op = ins.op /\ Has(P.steps[t].ins, "a") /\ ~Has(P.steps[t].ins, "b")
                                         /\ P.steps[t].ins.a = ua
                                         /\ (Has(ins, "fa") => Has(P.steps[t].ins, "fa") /\ P.steps[t].ins.fa = ins.fa)
                                         /\ (Has(ins, "p") => Has(P.steps[t].ins, "p") /\ P.steps[t].ins.p = ins.p)}
       IN IF ua = ins.a \/ C = {} THEN 0 ELSE CHOOSE t \in C : TRUE
  ELSE IF ~(Has(ins, "a") /\ Has(ins, "b")) THEN 0
  ELSE LET ua == WrapSrc(P, ins.a) ub == WrapSrc(P, ins.b)
           C == {t \in 1..Len(P.steps) : /\ t # s /\ P.steps[t].ins.op = ins.op /\ Has(P.steps[t].ins, "a") /\ Has(P.steps[t].ins, "b")
                                         /\ P.steps[t].ins.a = ua /\ P.steps[t].ins.b = ub
                                         /\ (Has(ins, "fa") => Has(P.steps[t].ins, "fa") /\ P.steps[t].ins.fa = ins.fa /\ P.steps[t].ins.fb = ins.fb)}
       IN IF (ua = ins.a /\ ub = ins.b) \/ C = {} THEN 0 ELSE CHOOSE t \in C : TRUE
TwinVerdict(P, s) ==
  LET t == TwinOf(P, s) IN
  IF t = 0 THEN "skip"
  ELSE LET x == P.steps[s] y == P.steps[t] IN
       IF x.o # "ok" \/ y.o # "ok" THEN "skip"
       ELSE IF IsNum(x.res) /\ IsNum(y.res) THEN V(SameStored(x.res, y.res))
       ELSE V(x.res = y.res)
\* ------------------------------------------------------------------ one step
StepVerdict(P, s) ==
  LET st == P.steps[s] ins == st.ins op == ins.op
      a == IF Has(ins, "a") THEN Reg(P, ins.a) ELSE [k |-> "none"]
      b == IF Has(ins, "b") THEN Reg(P, ins.b) ELSE [k |-> "none"]
  IN IF a.k = "dead" \/ b.k = "dead" THEN "skip"
     ELSE CASE op \in {"add", "sub", "mul", "div", "rem"} -> BinVerdict(op, a, b, st)
            [] op \in {"neg", "pow", "exp", "log", "ncdf", "incdf", "abs"} -> UnVerdict(op, a, IF Has(ins, "p") THEN ins.p ELSE FZ, st)
            [] op \in {"lt", "le", "gt", "ge", "eq", "ne"} -> CmpVerdict(op, a, b, st)
            [] op = "sum" -> SumVerdict(P, ins, st)
            [] op \in {"zero", "one"} -> ConstVerdict(op, ins, st)
            [] op \in {"wrap", "unwrap", "to_n", "to_f64", "to_d1", "to_d2"} -> ConvVerdict(op, a, st)
            [] op \in {"set_order", "set_order_clone"} -> SetOrderVerdict(ins, a, st)
            [] op \in {"vars_cmp", "ptr_eq", "to_new_vars", "union_l", "union_r"} -> VarsVerdict(op, a, b, st)
            [] op \in {"gradient1", "gradient2", "manifold"} -> ReadVerdict(op, ins, a, st)
            [] op \in {"signum", "is_positive", "is_negative", "is_zero"} -> MiscVerdict(op, a, st)
            [] op = "abs_sub" -> AbsSubVerdict(a, b, st)
            [] OTHER -> "bad"
===============================================================================
