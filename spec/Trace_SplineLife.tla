---------------------------- MODULE Trace_SplineLife ----------------------------
(* (V) every history written by Gen_SplineLife, as the harness ran it on a real spline *)
(* object (core PPSpline<f64 | Dual | Dual2>, or the Python-facing class through its     *)
(* own methods), validated call by call against SplineLife.Apply.                       *)
(* One behaviour per recorded history: the trace position l advances one call per step; *)
(* the abstract state c is the specification's, the observation is the implementation's:*)
(*   - the outcome (ok / err) is Apply's;                                                *)
(*   - the object holds coefficients iff c # None, and then they are, bit for bit, the   *)
(*     coefficients a FRESH object got from data set c[1] in mode c[2] (refs) - so a     *)
(*     refused call, an evaluation, a copy or a stored document changed nothing, and a   *)
(*     solve did not depend on what was there before;                                    *)
(*   - an accepted evaluation returns, bit for bit, the fresh object's values;           *)
(*   - a copy / an object read back from its stored document equals its original.        *)
EXTENDS SplineLife, Json, IOUtils, TLC
Rec == ndJsonDeserialize(IOEnv.TRACE)
SameNum(x, y) == /\ x.k = y.k /\ x.re = y.re
                 /\ (x.k # "F" => x.vars = y.vars /\ x.d = y.d)
                 /\ (x.k = "D2" => x.raw2 = y.raw2)
SameVec(a, b) == Len(a) = Len(b) /\ \A j \in 1..Len(a) : SameNum(a[j], b[j])
RefOf(e, c) == e.refs[ToString(c[1]) \o c[2]]
\* the model's op record from the logged one (the JSON carries the same fields)
OpOf(o) == CASE o.op = "solve" -> [op |-> "solve", d |-> o.d, mode |-> o.mode]
             [] o.op = "bad"   -> [op |-> "bad", why |-> o.why]
             [] OTHER          -> [op |-> o.op]
ObsOK(e, st, o, r) ==
  /\ st.o = r.o
  /\ st.has = Solved(r.c)
  /\ (Solved(r.c) => SameVec(st.c, RefOf(e, r.c).c))
  /\ (~Solved(r.c) => st.c = <<>>)
  /\ (o.op = "eval" /\ r.o = "ok" => SameVec(st.ev, RefOf(e, r.c).ev))
  /\ (o.op \in {"copy", "json"} => st.eq)
RefsOK(e) == \A d \in Data, m \in Modes : LET r == e.refs[ToString(d) \o m] IN r.o = "ok" /\ Len(r.c) = e.n
VARIABLES i, l, c, ok
vars == <<i, l, c, ok>>
Init == i \in 1..Len(Rec) /\ l = 0 /\ c = None /\ ok = (OpOf(Rec[i].ops[1]) \in Ops /\ RefsOK(Rec[i]) /\ Len(Rec[i].steps) = Len(Rec[i].ops))
Next == /\ ok /\ l < Len(Rec[i].ops)
        /\ LET e == Rec[i] o == OpOf(e.ops[l + 1]) r == Apply(c, o) IN
           /\ c' = r.c
           /\ ok' = (o \in Ops /\ ObsOK(e, e.steps[l + 1], o, r))
        /\ l' = l + 1 /\ i' = i
Accepted == ok
\* the whole history was consumed, or it stopped at the first rejected call
===============================================================================
