//! Shared plumbing of the conformance harness: deterministic RNG, JSON encodings of doubles / dates /
//! dual numbers, panic capture. The harness never judges a property; it drives the crate and records.
#![allow(dead_code)]

use chrono::{NaiveDate, NaiveDateTime};
use rateslib::dual::{Dual, Dual2, Gradient1, Gradient2, Number, Vars};
use serde_json::{json, Value};
use std::io::Write;
use std::panic::{catch_unwind, AssertUnwindSafe};

// ------------------------------------------------------------------------------------------- rng
#[derive(Clone)]
pub struct Rng(pub u64);
impl Rng {
    pub fn new(seed: u64) -> Self {
        Rng(seed.wrapping_mul(0x9E3779B97F4A7C15).wrapping_add(0xD1B54A32D192ED03))
    }
    pub fn next(&mut self) -> u64 {
        self.0 = self.0.wrapping_add(0x9E3779B97F4A7C15);
        let mut z = self.0;
        z = (z ^ (z >> 30)).wrapping_mul(0xBF58476D1CE4E5B9);
        z = (z ^ (z >> 27)).wrapping_mul(0x94D049BB133111EB);
        z ^ (z >> 31)
    }
    /// uniform in 0..n
    pub fn below(&mut self, n: u64) -> u64 {
        if n == 0 {
            0
        } else {
            self.next() % n
        }
    }
    pub fn range(&mut self, lo: i64, hi: i64) -> i64 {
        lo + self.below((hi - lo + 1) as u64) as i64
    }
    pub fn unit(&mut self) -> f64 {
        (self.next() >> 11) as f64 / (1u64 << 53) as f64
    }
    pub fn uniform(&mut self, lo: f64, hi: f64) -> f64 {
        lo + (hi - lo) * self.unit()
    }
    pub fn coin(&mut self) -> bool {
        self.next() & 1 == 1
    }
    pub fn chance(&mut self, p: f64) -> bool {
        self.unit() < p
    }
    pub fn pick<'a, T>(&mut self, v: &'a [T]) -> &'a T {
        &v[self.below(v.len() as u64) as usize]
    }
    pub fn shuffle<T>(&mut self, v: &mut [T]) {
        for i in (1..v.len()).rev() {
            let j = self.below(i as u64 + 1) as usize;
            v.swap(i, j);
        }
    }
}

// ------------------------------------------------------------------------------------------- doubles
pub fn fj(x: f64) -> Value {
    let b = x.to_bits();
    json!([(b >> 32) as u32 as i32, b as u32 as i32])
}
pub fn jf(v: &Value) -> f64 {
    let hi = v[0].as_i64().unwrap() as i32 as u32 as u64;
    let lo = v[1].as_i64().unwrap() as i32 as u32 as u64;
    f64::from_bits((hi << 32) | lo)
}
pub fn fvec(v: &[f64]) -> Value {
    Value::Array(v.iter().map(|x| fj(*x)).collect())
}
pub fn jfvec(v: &Value) -> Vec<f64> {
    v.as_array().unwrap().iter().map(jf).collect()
}

// ------------------------------------------------------------------------------------------- dates
pub fn epoch() -> NaiveDate {
    NaiveDate::from_ymd_opt(1970, 1, 1).unwrap()
}
/// day number (days since 1970-01-01) -> midnight datetime
pub fn dn(d: i64) -> NaiveDateTime {
    (epoch() + chrono::Duration::days(d)).and_hms_opt(0, 0, 0).unwrap()
}
pub fn nd(t: &NaiveDateTime) -> i64 {
    (t.date() - epoch()).num_days()
}
pub fn ymd(y: i32, m: u32, d: u32) -> NaiveDateTime {
    NaiveDate::from_ymd_opt(y, m, d).unwrap().and_hms_opt(0, 0, 0).unwrap()
}

// ------------------------------------------------------------------------------------------- numbers
fn arc_id<T>(a: &std::sync::Arc<T>) -> i64 {
    // identity of the shared variable list, reduced to 31 bits (only equality between registers matters)
    ((std::sync::Arc::as_ptr(a) as usize as u64) % 2147483647) as i64
}
pub fn dual_json(d: &Dual) -> Value {
    let vars: Vec<String> = d.vars().iter().cloned().collect();
    json!({"k": "D1", "re": fj(d.real()), "vars": vars, "arc": arc_id(d.vars()),
           "d": fvec(d.dual().as_slice().unwrap())})
}
pub fn dual2_json(d: &Dual2) -> Value {
    let vars: Vec<String> = d.vars().iter().cloned().collect();
    let n = vars.len();
    let raw: Vec<Value> = (0..n)
        .map(|i| Value::Array((0..n).map(|j| fj(d.dual2()[[i, j]])).collect()))
        .collect();
    // user-visible Hessian read back by the stored names
    let g2 = d.gradient2(vars.clone());
    let h: Vec<Value> = (0..n)
        .map(|i| Value::Array((0..n).map(|j| fj(g2[[i, j]])).collect()))
        .collect();
    json!({"k": "D2", "re": fj(d.real()), "vars": vars, "arc": arc_id(d.vars()),
           "d": fvec(d.dual().as_slice().unwrap()), "raw2": raw, "d2": h})
}
pub fn f64_json(x: f64) -> Value {
    json!({"k": "F", "re": fj(x)})
}
pub fn number_json(n: &Number) -> Value {
    match n {
        Number::F64(f) => f64_json(*f),
        Number::Dual(d) => dual_json(d),
        Number::Dual2(d) => dual2_json(d),
    }
}
/// gradient of a number with respect to `names`, zeros for a float
pub fn grad1(n: &Number, names: &[String]) -> Vec<f64> {
    match n {
        Number::F64(_) => vec![0.0; names.len()],
        Number::Dual(d) => d.gradient1(names.to_vec()).to_vec(),
        Number::Dual2(d) => d.gradient1(names.to_vec()).to_vec(),
    }
}
pub fn grad2(n: &Number, names: &[String]) -> Vec<Vec<f64>> {
    match n {
        Number::Dual2(d) => {
            let g = d.gradient2(names.to_vec());
            (0..names.len()).map(|i| (0..names.len()).map(|j| g[[i, j]]).collect()).collect()
        }
        _ => vec![vec![0.0; names.len()]; names.len()],
    }
}
pub fn fmat(m: &[Vec<f64>]) -> Value {
    Value::Array(m.iter().map(|r| fvec(r)).collect())
}
pub fn number_re(n: &Number) -> f64 {
    match n {
        Number::F64(f) => *f,
        Number::Dual(d) => d.real(),
        Number::Dual2(d) => d.real(),
    }
}
pub fn number_vars(n: &Number) -> Vec<String> {
    match n {
        Number::F64(_) => vec![],
        Number::Dual(d) => d.vars().iter().cloned().collect(),
        Number::Dual2(d) => d.vars().iter().cloned().collect(),
    }
}
pub fn number_kind(n: &Number) -> &'static str {
    match n {
        Number::F64(_) => "F",
        Number::Dual(_) => "D1",
        Number::Dual2(_) => "D2",
    }
}

// ------------------------------------------------------------------------------------------- panic capture
pub enum Outcome<T> {
    Ok(T),
    Panic(String),
}
/// Run `f`, turning a panic in the code under test into data.
pub fn guard<T>(f: impl FnOnce() -> T) -> Outcome<T> {
    match catch_unwind(AssertUnwindSafe(f)) {
        Ok(v) => Outcome::Ok(v),
        Err(e) => {
            let msg = if let Some(s) = e.downcast_ref::<&str>() {
                s.to_string()
            } else if let Some(s) = e.downcast_ref::<String>() {
                s.clone()
            } else {
                "panic".to_string()
            };
            Outcome::Panic(msg)
        }
    }
}
pub fn quiet_panics() {
    std::panic::set_hook(Box::new(|_| {}));
}

// ------------------------------------------------------------------------------------------- output
pub struct Out {
    w: std::io::BufWriter<std::fs::File>,
    pub n: usize,
}
impl Out {
    pub fn create(path: &str) -> Self {
        Out { w: std::io::BufWriter::with_capacity(1 << 20, std::fs::File::create(path).expect("create output")), n: 0 }
    }
    pub fn emit(&mut self, v: &Value) {
        serde_json::to_writer(&mut self.w, v).unwrap();
        self.w.write_all(b"\n").unwrap();
        self.n += 1;
    }
    pub fn finish(mut self) -> usize {
        self.w.flush().unwrap();
        self.n
    }
}

pub fn arg_val(args: &[String], name: &str) -> Option<String> {
    args.iter().position(|a| a == name).and_then(|i| args.get(i + 1).cloned())
}
pub fn arg_u64(args: &[String], name: &str, default: u64) -> u64 {
    arg_val(args, name).map(|s| s.parse().expect("numeric argument")).unwrap_or(default)
}
pub fn read_ndjson(path: &str) -> Vec<Value> {
    let s = std::fs::read_to_string(path).expect("read cases");
    s.lines().filter(|l| !l.trim().is_empty()).map(|l| serde_json::from_str(l).expect("json line")).collect()
}

// ------------------------------------------------------------------------------------------- watchdog
/// A call into the crate that does not return is data, like a panic: the watchdog thread notices a call that has
/// been running for longer than `limit` seconds, records `{"op":"hang","key":..}` in `<out>.hang` and ends the
/// process with exit code 3 (the glue turns that into a reported violation; normal calls take microseconds).
pub struct Watchdog {
    state: std::sync::Arc<std::sync::Mutex<(Option<std::time::Instant>, String)>>,
}
impl Watchdog {
    pub fn start(out_path: &str, limit_s: u64) -> Self {
        let state: std::sync::Arc<std::sync::Mutex<(Option<std::time::Instant>, String)>> = std::sync::Arc::new(std::sync::Mutex::new((None, String::new())));
        let st = state.clone();
        let hang_path = format!("{}.hang", out_path);
        let _ = std::fs::remove_file(&hang_path);
        std::thread::spawn(move || loop {
            std::thread::sleep(std::time::Duration::from_millis(500));
            let g = st.lock().unwrap();
            if let (Some(t0), key) = (&g.0, &g.1) {
                if t0.elapsed().as_secs() >= limit_s {
                    let _ = std::fs::write(&hang_path, format!("{}\n", serde_json::json!({"op":"hang","key":key,"seconds":limit_s})));
                    std::process::exit(3);
                }
            }
        });
        Watchdog { state }
    }
    pub fn enter(&self, key: &str) {
        let mut g = self.state.lock().unwrap();
        g.0 = Some(std::time::Instant::now());
        g.1 = key.to_string();
    }
    pub fn leave(&self) {
        self.state.lock().unwrap().0 = None;
    }
}
