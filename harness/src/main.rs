//! vharness: conformance harness binding the TLA+ specifications under /verif/spec to the rateslib crate.
//! It replays TLC-generated cases into the real code and records what the code did as ndjson traces that
//! TLC then validates against the specifications. It never judges a property itself.
mod cal;
mod curve;
mod fx;
mod gauss;
mod named;
mod numvm;
mod persist;
mod spline;
mod util;

fn main() {
    // A panic message that formats a PyErr needs an interpreter; without one the process would abort
    // inside the panic handler. Initialise Python once, then silence the default panic printer.
    pyo3::prepare_freethreaded_python();
    util::quiet_panics();
    let args: Vec<String> = std::env::args().skip(1).collect();
    if args.is_empty() {
        eprintln!("usage: vharness <engine> <subcommand> ...");
        std::process::exit(2);
    }
    match args[0].as_str() {
        "cal" => cal::main(&args[1..]),
        "named" => named::main(&args[1..]),
        "fx" => fx::main(&args[1..]),
        "curve" => curve::main(&args[1..]),
        "gauss" => gauss::main(&args[1..]),
        "spline" => spline::main(&args[1..]),
        "persist" => persist::main(&args[1..]),
        "numvm" => numvm::main(&args[1..]),
        other => {
            eprintln!("unknown engine {}", other);
            std::process::exit(2);
        }
    }
}
