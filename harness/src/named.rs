//! Named / combined calendar engine (C06, C07): records what the built-in tables, the name grammar, unions and
//! the behavioural equality of the real crate do.
use crate::cal::bitmap;
use crate::util::*;
use chrono::{Datelike, NaiveDateTime};
use rateslib::calendars::{get_calendar_by_name, ndt, Cal, CalType, DateRoll, NamedCal, UnionCal};
use rateslib::verif::calendar_py as cpy;
use serde_json::{json, Value};

pub const DOC_NAMES: [&str; 14] =
    ["all", "bus", "tgt", "osl", "zur", "nyc", "fed", "ldn", "stk", "tro", "tyo", "syd", "wlg", "mum"];
/// probe windows: start of the supported range, present day, end of the supported range
pub const WINDOWS: [(i64, i64); 3] = [(0, 399), (19650, 20049), (83971, 84370)];

fn random_case(r: &mut Rng, s: &str) -> String {
    s.chars().map(|c| if r.coin() { c.to_ascii_uppercase() } else { c.to_ascii_lowercase() }).collect()
}

/// C07: per name and year, the weekday (Mon-Fri) holidays and non-business weekdays of the real calendar
pub fn dump(seed: u64, out: &str) {
    let mut o = Out::create(out);
    let mut r = Rng::new(seed ^ 0xC07);
    for name in DOC_NAMES.iter() {
        let cal = match guard(|| get_calendar_by_name(name)) {
            Outcome::Ok(Ok(c)) => c,
            _ => {
                o.emit(&json!({"op":"resolve","key":format!("resolve/{}", name),"str":name,"name":name,"o":"err","via":"get_calendar_by_name"}));
                continue;
            }
        };
        // the Python-facing `get_named_calendar` must hand out the same calendar: every day of 1970-2200, business day and holiday
        let (py_o, py_diff) = match guard(|| cpy::named_calendar(name)) {
            Outcome::Ok(Ok(pc)) => {
                let (r0, r1) = (nd(&ndt(1970, 1, 1)), nd(&ndt(2200, 12, 31)));
                ("ok".to_string(), (r0..=r1).filter(|d| { let x = dn(*d); pc.is_bus_day(&x) != cal.is_bus_day(&x) || pc.is_holiday(&x) != cal.is_holiday(&x) }).count())
            }
            Outcome::Ok(Err(e)) => (e, 0),
            Outcome::Panic(_) => ("panic".to_string(), 0),
        };
        o.emit(&json!({"op":"resolve","key":format!("resolve/{}", name),"str":name,"name":name,"o":"ok","via":"get_calendar_by_name","py_o":py_o,"py_diff_n":py_diff}));
        for y in 1970..=2200i32 {
            let (a, b) = (nd(&ndt(y, 1, 1)), nd(&ndt(y, 12, 31)));
            let mut hol = vec![];
            let mut nonbus = vec![];
            let mut weekend_bus = vec![];
            let mut weekend_hol = 0usize;
            for d in a..=b {
                let t = dn(d);
                let wd = t.weekday().num_days_from_monday();
                if wd < 5 {
                    if cal.is_holiday(&t) {
                        hol.push(d);
                    }
                    if !cal.is_bus_day(&t) {
                        nonbus.push(d);
                    }
                } else {
                    if cal.is_bus_day(&t) {
                        weekend_bus.push(d);
                    }
                    if cal.is_holiday(&t) {
                        weekend_hol += 1;
                    }
                }
            }
            o.emit(&json!({"op":"year","key":format!("year/{}/{}", name, y),"name":name,"y":y,
                           "hol":hol,"nonbus":nonbus,"weekend_bus_count":weekend_bus.len(),"weekend_hol_count":weekend_hol,"weekend_days": (b - a + 1) as usize - count_weekdays(a, b)}));
        }
        // the same name through NamedCal in random letter case must be the same calendar (window projections)
        for k in 0..3 {
            let s = random_case(&mut r, name);
            let res = guard(|| NamedCal::try_new(&s));
            match res {
                Outcome::Ok(Ok(nc)) => {
                    let (lo, hi) = WINDOWS[k];
                    // the holiday question itself, every day of 1970-2200, through the named calendar (and the generic container)
                    let (r0, r1) = (nd(&ndt(1970, 1, 1)), nd(&ndt(2200, 12, 31)));
                    let t = CalType::NamedCal(nc.clone());
                    let hol_diff = (r0..=r1).filter(|d| { let x = dn(*d); let w = cal.is_holiday(&x); nc.is_holiday(&x) != w || t.is_holiday(&x) != w }).count();
                    o.emit(&json!({"op":"resolve","key":format!("resolve/{}/case{}", name, k),"str":s,"name":name,"o":"ok","via":"NamedCal",
                        "win":k+1,"bus":bitmap(lo, hi, |d| nc.is_bus_day(d)),"ref":bitmap(lo, hi, |d| cal.is_bus_day(d)),
                        "stl_all": (lo..=hi).all(|d| nc.is_settlement(&dn(d))), "hol_diff_n": hol_diff}));
                }
                Outcome::Ok(Err(_)) => o.emit(&json!({"op":"resolve","key":format!("resolve/{}/case{}", name, k),"str":s,"name":name,"o":"err","via":"NamedCal"})),
                Outcome::Panic(_) => o.emit(&json!({"op":"resolve","key":format!("resolve/{}/case{}", name, k),"str":s,"name":name,"o":"panic","via":"NamedCal"})),
            }
        }
    }
    eprintln!("named dump: {} events", o.finish());
}
fn count_weekdays(a: i64, b: i64) -> usize {
    (a..=b).filter(|d| dn(*d).weekday().num_days_from_monday() < 5).count()
}

/// C07: the nine fixing histories shipped with the library against the calendars' business days
pub fn fixings(out: &str) {
    let mut o = Out::create(out);
    let pairs = [("usd", "nyc"), ("gbp", "ldn"), ("cad", "tro"), ("eur", "tgt"), ("jpy", "tyo"), ("sek", "stk"), ("nok", "osl"), ("aud", "syd"), ("inr", "mum")];
    for (ccy, calname) in pairs.iter() {
        let repo = std::env::var("VERIF_REPO_DIR").unwrap_or("/repo".to_string());
        let path = format!("{}/python/rateslib/data/{}_rfr.csv", repo, ccy);
        let txt = std::fs::read_to_string(&path).expect("fixings csv");
        let mut dates: Vec<i64> = vec![];
        for line in txt.lines().skip(1) {
            let f = line.split(',').next().unwrap().trim().trim_start_matches('\u{feff}');
            if f.is_empty() {
                continue;
            }
            let p: Vec<&str> = f.split('-').collect();
            if p.len() != 3 {
                continue;
            }
            let (d, m, y): (u32, u32, i32) = (p[0].parse().unwrap(), p[1].parse().unwrap(), p[2].parse().unwrap());
            dates.push(nd(&ymd(y, m, d)));
        }
        dates.sort();
        dates.dedup();
        let cal = get_calendar_by_name(calname).expect("calendar");
        let (lo, hi) = (dates[0], *dates.last().unwrap());
        // the library's own stepping over the same span: the next business day after each publication (add_bus_days by one)
        // and the business-date range of the whole history
        let nxt: Vec<i64> = dates.iter().map(|d| match guard(|| cal.add_bus_days(&dn(*d), 1, false)) { Outcome::Ok(Ok(x)) => nd(&x), _ => -1 }).collect();
        let range_same = match guard(|| cal.bus_date_range(&dn(lo), &dn(hi))) { Outcome::Ok(Ok(v)) => v.iter().map(nd).collect::<Vec<i64>>() == dates, _ => false };
        o.emit(&json!({"op":"fix","key":format!("fix/{}/{}", ccy, calname),"ccy":ccy,"cal":calname,"dates":dates,"w0":lo,"n":hi-lo+1,
                       "bus":bitmap(lo, hi, |d| cal.is_bus_day(d)), "nxt": nxt, "range_same": range_same}));
    }
    eprintln!("named fixings: {} events", o.finish());
}

/// member projections for the three probe windows
pub fn members(out: &str) {
    let mut o = Out::create(out);
    for name in DOC_NAMES.iter() {
        if let Ok(cal) = get_calendar_by_name(name) {
            for (k, (lo, hi)) in WINDOWS.iter().enumerate() {
                o.emit(&json!({"op":"member","name":name,"win":k+1,"w0":lo,"n":hi-lo+1,"bus":bitmap(*lo, *hi, |d| cal.is_bus_day(d))}));
            }
        }
    }
    o.finish();
}

/// C06: token sequences (from TLC) rendered to strings in random letter case and given to NamedCal::try_new
pub fn grammar(cases: &str, seed: u64, out: &str) {
    let mut o = Out::create(out);
    let mut r = Rng::new(seed ^ 0xC06);
    for (i, c) in read_ndjson(cases).iter().enumerate() {
        let toks: Vec<String> = c["toks"].as_array().unwrap().iter().map(|t| t.as_str().unwrap().to_string()).collect();
        let s: String = toks.iter().map(|t| random_case(&mut r, t)).collect::<Vec<_>>().join("");
        let k = (i % 3) as usize;
        let (lo, hi) = WINDOWS[k];
        let via_type = r.coin();
        // every third triple of cases goes through the Python-facing class: its constructor, then its own predicates
        // (drawn, not computed from the case number: TLC writes the token sequences in an order in which the LAST token has
        //  period 9, so that any arithmetic choice on i sends only names ending in a separator - all invalid - down one route)
        let via_py = r.below(3) == 2;
        let ev = match guard(|| if via_py { cpy::named_new(&s).map_err(|_| ()) } else { NamedCal::try_new(&s).map_err(|_| ()) }) {
            Outcome::Ok(Ok(nc)) => {
                if via_py {
                    // what the Python getter `union_cal` hands out must answer as the named calendar does
                    let (_, pu) = cpy::named_parts(&nc);
                    let pyu_same = (lo..=hi).all(|d| { let x = dn(d); pu.is_bus_day(&x) == cpy::named_pred(&nc, "is_bus_day", x).unwrap_or(false) && pu.is_settlement(&x) == cpy::named_pred(&nc, "is_settlement", x).unwrap_or(false) });
                    json!({"op":"name","key":format!("name/{}", s.to_lowercase()),"toks":toks,"str":s,"o":"ok","win":k+1,"via":"PyNamedCal","pyu_same":pyu_same,
                           "bus":bitmap(lo, hi, |d| cpy::named_pred(&nc, "is_bus_day", *d).unwrap_or(false)),
                           "stl":bitmap(lo, hi, |d| cpy::named_pred(&nc, "is_settlement", *d).unwrap_or(false))})
                } else if via_type {
                    let t = CalType::NamedCal(nc);
                    json!({"op":"name","key":format!("name/{}", s.to_lowercase()),"toks":toks,"str":s,"o":"ok","win":k+1,"via":"CalType",
                           "bus":bitmap(lo, hi, |d| t.is_bus_day(d)),"stl":bitmap(lo, hi, |d| t.is_settlement(d))})
                } else {
                    json!({"op":"name","key":format!("name/{}", s.to_lowercase()),"toks":toks,"str":s,"o":"ok","win":k+1,"via":"NamedCal",
                           "bus":bitmap(lo, hi, |d| nc.is_bus_day(d)),"stl":bitmap(lo, hi, |d| nc.is_settlement(d))})
                }
            }
            Outcome::Ok(Err(_)) => json!({"op":"name","key":format!("name/{}", s.to_lowercase()),"toks":toks,"str":s,"o":"err","win":k+1}),
            Outcome::Panic(_) => json!({"op":"name","key":format!("name/{}", s.to_lowercase()),"toks":toks,"str":s,"o":"panic","win":k+1}),
        };
        o.emit(&ev);
    }
    eprintln!("named grammar: {} events", o.finish());
}

fn rand_cal(r: &mut Rng, lo: i64, hi: i64, common: u8) -> Cal {
    let mut mask: Vec<u8> = match r.below(5) {
        0 | 1 => vec![5, 6],
        2 => vec![4, 5],
        3 => vec![],
        _ => (0..7u8).filter(|_| r.chance(0.35)).collect(),
    };
    mask.retain(|w| *w != common);
    let hols: Vec<NaiveDateTime> = (0..r.below(40)).map(|_| dn(r.range(lo, hi))).collect();
    Cal::new(hols, mask)
}

/// C06: explicit unions of arbitrary calendars; members' and union's projections on a window
pub fn unions(seed: u64, n: usize, out: &str) {
    let mut o = Out::create(out);
    let mut r = Rng::new(seed ^ 0x0706);
    for i in 0..n {
        let lo = r.range(0, 84000);
        let hi = lo + 200;
        let common = r.below(7) as u8;
        let nm = 1 + r.below(4) as usize;
        let members: Vec<Cal> = (0..nm).map(|_| rand_cal(&mut r, lo, hi, common)).collect();
        let settle: Option<Vec<Cal>> = match r.below(4) {
            0 => None,
            1 => Some(vec![]),
            _ => Some((0..(1 + r.below(3))).map(|_| rand_cal(&mut r, lo, hi, common)).collect()),
        };
        let mb: Vec<Value> = members.iter().map(|c| bitmap(lo, hi, |d| c.is_bus_day(d))).collect();
        let sb: Vec<Value> = settle.as_ref().map(|v| v.iter().map(|c| bitmap(lo, hi, |d| c.is_bus_day(d))).collect()).unwrap_or_default();
        let has_settle = settle.is_some();
        let u = UnionCal::new(members, settle);
        // the complementary question, asked of the union itself (trait method, or the Python-facing one)
        let nonbus = if i % 2 == 0 { bitmap(lo, hi, |d| u.is_non_bus_day(d)) } else { bitmap(lo, hi, |d| cpy::union_pred(&u, "is_non_bus_day", *d).unwrap_or(false)) };
        let (bus, stl) = if i % 3 == 2 {
            // the Python-facing class's own predicates
            (bitmap(lo, hi, |d| cpy::union_pred(&u, "is_bus_day", *d).unwrap_or(false)), bitmap(lo, hi, |d| cpy::union_pred(&u, "is_settlement", *d).unwrap_or(false)))
        } else if i % 2 == 0 {
            (bitmap(lo, hi, |d| u.is_bus_day(d)), bitmap(lo, hi, |d| u.is_settlement(d)))
        } else {
            let t = CalType::UnionCal(u);
            (bitmap(lo, hi, |d| t.is_bus_day(d)), bitmap(lo, hi, |d| t.is_settlement(d)))
        };
        o.emit(&json!({"op":"union","key":format!("union/{}", i),"w0":lo,"n":hi-lo+1,"members":mb,"settle":sb,"has_settle":has_settle,"bus":bus,"stl":stl,"nonbus":nonbus}));
    }
    eprintln!("named unions: {} events", o.finish());
}

// ------------------------------------------------------------------------------------------ equality
enum Obj {
    C(Cal),
    U(UnionCal),
    N(NamedCal),
    /// the calendar container holding one of the above: compared through `CalType`, but PROJECTED through the calendar
    /// it holds (the container must behave like what it contains)
    T(Box<Obj>),
}
impl Obj {
    fn bus(&self, d: &NaiveDateTime) -> bool {
        match self {
            Obj::C(c) => c.is_bus_day(d),
            Obj::U(c) => c.is_bus_day(d),
            Obj::N(c) => c.is_bus_day(d),
            Obj::T(b) => b.bus(d),
        }
    }
    fn stl(&self, d: &NaiveDateTime) -> bool {
        match self {
            Obj::C(c) => c.is_settlement(d),
            Obj::U(c) => c.is_settlement(d),
            Obj::N(c) => c.is_settlement(d),
            Obj::T(b) => b.stl(d),
        }
    }
    fn kind(&self) -> &'static str {
        match self {
            Obj::C(_) => "Cal",
            Obj::U(_) => "UnionCal",
            Obj::N(_) => "NamedCal",
            Obj::T(_) => "CalType",
        }
    }
    fn caltype(&self) -> Option<rateslib::calendars::CalType> {
        use rateslib::calendars::CalType;
        match self {
            Obj::T(b) => Some(match b.as_ref() {
                Obj::C(c) => CalType::Cal(c.clone()),
                Obj::U(c) => CalType::UnionCal(c.clone()),
                Obj::N(c) => CalType::NamedCal(c.clone()),
                Obj::T(_) => return None,
            }),
            _ => None,
        }
    }
}
/// a == b where the crate implements it (left operand UnionCal / NamedCal, or Cal against those)
fn eq(a: &Obj, b: &Obj) -> Option<Outcome<bool>> {
    if let Some(t) = b.caltype() {
        return Some(match a {
            Obj::U(x) => guard(|| *x == t),
            Obj::N(x) => guard(|| *x == t),
            _ => return None,
        });
    }
    if let Obj::T(_) = a {
        return None;
    }
    Some(match (a, b) {
        (Obj::U(x), Obj::C(y)) => guard(|| x == y),
        (Obj::U(x), Obj::U(y)) => guard(|| x == y),
        (Obj::U(x), Obj::N(y)) => guard(|| x == y),
        (Obj::N(x), Obj::C(y)) => guard(|| x == y),
        (Obj::N(x), Obj::U(y)) => guard(|| x == y),
        (Obj::N(x), Obj::N(y)) => guard(|| x == y),
        (Obj::C(x), Obj::U(y)) => guard(|| x == y),
        (Obj::C(x), Obj::N(y)) => guard(|| x == y),
        (Obj::C(_), Obj::C(_)) => return None, // structural equality of plain calendars is not this property
        _ => return None,
    })
}
/// a.__eq__(b) as Python evaluates it (the `#[pymethods]` item, through the cfg-guarded hooks)
fn py_eq(a: &Obj, b: &Obj) -> Option<Outcome<bool>> {
    use rateslib::calendars::CalType;
    use rateslib::verif::calendar_py as cpy;
    if let (Obj::C(_), Obj::C(_)) = (a, b) {
        return None;
    }
    let other = match b {
        Obj::C(y) => CalType::Cal(y.clone()),
        Obj::U(y) => CalType::UnionCal(y.clone()),
        Obj::N(y) => CalType::NamedCal(y.clone()),
        Obj::T(_) => b.caltype()?,
    };
    Some(match a {
        Obj::C(x) => guard(|| cpy::cal_eq(x, other)),
        Obj::U(x) => guard(|| cpy::union_eq(x, other)),
        Obj::N(x) => guard(|| cpy::named_eq(x, other)),
        Obj::T(_) => return None,
    })
}
fn diffs(a: &Obj, b: &Obj) -> (Vec<i64>, Vec<i64>) {
    // projection of the two REAL objects on the supported range: days where they disagree
    let (lo, hi) = (0i64, 84370i64);
    let mut db = vec![];
    let mut ds = vec![];
    for d in lo..=hi {
        let t = dn(d);
        if a.bus(&t) != b.bus(&t) {
            db.push(d);
        }
        if a.stl(&t) != b.stl(&t) {
            ds.push(d);
        }
    }
    (db, ds)
}

pub fn equality(seed: u64, n: usize, out: &str) {
    let mut o = Out::create(out);
    let mut r = Rng::new(seed ^ 0xE0);
    let names = ["tgt", "ldn", "nyc", "stk", "bus", "all", "fed", "tro"];
    // placements of a single differing day: first / last day of the range, mid-range, outside the range
    let placements: [i64; 6] = [0, 84370, 84369, 1, 30000, 84371];
    for i in 0..n {
        let base_name = *r.pick(&names);
        let base = get_calendar_by_name(base_name).unwrap();
        let hols: Vec<NaiveDateTime> = rateslib::verif::cal_holidays(&base);
        let mask: Vec<u8> = rateslib::verif::cal_week_mask(&base);
        // pick a day that is a business day of the base calendar near a placement
        let mut day = *r.pick(&placements);
        if day <= 84370 {
            let dir = if day > 40000 { -1 } else { 1 };
            while !base.is_bus_day(&dn(day)) {
                day += dir;
            }
        } else {
            while !base.is_bus_day(&dn(day)) {
                day += 1;
            }
        }
        let variant = r.below(13);
        let mut hols2 = hols.clone();
        let (a, b, what): (Obj, Obj, &str) = match variant {
            // identical behaviour, different structure
            0 => (Obj::N(NamedCal::try_new(base_name).unwrap()), Obj::C(base.clone()), "named-vs-cal-same"),
            1 => {
                // a holiday on a weekend changes nothing behaviourally (if weekends are masked)
                let mut d = r.range(100, 84000);
                while dn(d).weekday().num_days_from_monday() != 6 {
                    d += 1;
                }
                hols2.push(dn(d));
                (Obj::U(UnionCal::new(vec![Cal::new(hols2, mask.clone())], None)), Obj::N(NamedCal::try_new(base_name).unwrap()), "weekend-holiday")
            }
            2 => {
                // one extra business holiday at the placement
                hols2.push(dn(day));
                (Obj::U(UnionCal::new(vec![base.clone()], None)), Obj::C(Cal::new(hols2, mask.clone())), "one-bus-day")
            }
            3 => {
                hols2.push(dn(day));
                (Obj::N(NamedCal::try_new(base_name).unwrap()), Obj::U(UnionCal::new(vec![Cal::new(hols2, mask.clone())], None)), "one-bus-day-named")
            }
            4 => {
                // settlement calendars differing in one day at the placement
                hols2.push(dn(day));
                (Obj::U(UnionCal::new(vec![base.clone()], Some(vec![base.clone()]))),
                 Obj::U(UnionCal::new(vec![base.clone()], Some(vec![Cal::new(hols2, mask.clone())]))), "one-settle-day")
            }
            5 => {
                // member order and duplication do not matter
                let other = get_calendar_by_name("ldn").unwrap();
                (Obj::U(UnionCal::new(vec![base.clone(), other.clone()], None)), Obj::U(UnionCal::new(vec![other.clone(), base.clone(), other], None)), "order-dup")
            }
            7 => {
                // plain calendar on the LEFT of a union: a holiday listed on a weekend changes no business day
                let mut d = r.range(100, 84000);
                while dn(d).weekday().num_days_from_monday() != 6 {
                    d += 1;
                }
                hols2.push(dn(d));
                (Obj::C(Cal::new(hols2, mask.clone())), Obj::U(UnionCal::new(vec![base.clone()], None)), "cal-vs-union-weekend-holiday")
            }
            12 => {
                // two named calendars whose NAMES differ but whose dates do not: members permuted or repeated
                let other = if base_name == "ldn" { "tgt" } else { "ldn" };
                let (n1, n2) = match r.below(3) {
                    0 => (format!("{},{}", base_name, other), format!("{},{}", other, base_name)),
                    1 => (base_name.to_string(), format!("{},{}", base_name, base_name)),
                    _ => (format!("{}|fed,{}", base_name, other), format!("{}|{},fed", base_name, other)),
                };
                (Obj::N(NamedCal::try_new(&n1).unwrap()), Obj::N(NamedCal::try_new(&n2).unwrap()), "named-vs-named-other-spelling")
            }
            10 => {
                // the calendar container on the right: a named calendar with a settlement part against itself in the container
                let s = format!("{}|fed", base_name);
                (Obj::N(NamedCal::try_new(&s).unwrap()), Obj::T(Box::new(Obj::N(NamedCal::try_new(&s).unwrap()))), "named-vs-container-same")
            }
            11 => {
                // ... and a union WITHOUT the settlement part against it: they differ where fed is closed
                let s = format!("{}|fed", base_name);
                (Obj::U(UnionCal::new(vec![base.clone()], None)), Obj::T(Box::new(Obj::N(NamedCal::try_new(&s).unwrap()))), "union-vs-container-settle")
            }
            9 => {
                // a settlement part that restricts nothing ("all" has no closed day): same behaviour as the bare calendar,
                // whichever side the plain calendar stands on
                let s = format!("{}|all", base_name);
                (Obj::C(base.clone()), Obj::N(NamedCal::try_new(&s).unwrap()), "cal-vs-named-all-settle")
            }
            8 => {
                // identical holiday lists, different working weeks
                (Obj::C(Cal::new(hols.clone(), vec![5, 6])), Obj::U(UnionCal::new(vec![Cal::new(hols.clone(), vec![])], None)), "cal-vs-union-week-mask")
            }
            _ => {
                // settlement present vs absent: differs exactly where the settlement calendar is closed
                let s = format!("{}|{}", base_name, base_name);
                (Obj::N(NamedCal::try_new(&s).unwrap()), Obj::C(base.clone()), "self-settle")
            }
        };
        let (db, ds) = diffs(&a, &b);
        let mut res = vec![];
        for (x, y, dir) in [(&a, &b, "ab"), (&b, &a, "ba")] {
            if let Some(oc) = eq(x, y) {
                match oc {
                    Outcome::Ok(v) => res.push(json!({"dir":dir,"o":"ok","eq":v})),
                    Outcome::Panic(_) => res.push(json!({"dir":dir,"o":"panic","eq":false})),
                }
            }
            if let Some(oc) = py_eq(x, y) {
                match oc {
                    Outcome::Ok(v) => res.push(json!({"dir":format!("{}:py", dir),"o":"ok","eq":v})),
                    Outcome::Panic(_) => res.push(json!({"dir":format!("{}:py", dir),"o":"panic","eq":false})),
                }
            }
        }
        let nb = db.len();
        let ns = ds.len();
        let db: Vec<i64> = db.into_iter().take(5).collect();
        let ds: Vec<i64> = ds.into_iter().take(5).collect();
        o.emit(&json!({"op":"eq","key":format!("eq/{}/{}", what, i),"what":what,"a":a.kind(),"b":b.kind(),"base":base_name,"day":day,
                       "diff_bus_n":nb,"diff_stl_n":ns,"diff_bus":db,"diff_stl":ds,"res":res}));
    }
    eprintln!("named equality: {} events", o.finish());
}

pub fn main(args: &[String]) {
    let out = arg_val(args, "--out").unwrap_or_default();
    match args[0].as_str() {
        "dump" => dump(arg_u64(args, "--seed", 1), &out),
        "fixings" => fixings(&out),
        "members" => members(&out),
        "grammar" => grammar(&args[1], arg_u64(args, "--seed", 1), &out),
        "unions" => unions(arg_u64(args, "--seed", 1), arg_u64(args, "--n", 100) as usize, &out),
        "equality" => equality(arg_u64(args, "--seed", 1), arg_u64(args, "--n", 50) as usize, &out),
        _ => panic!("unknown named subcommand"),
    }
}
