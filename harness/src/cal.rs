//! Calendar engine: drives Cal / UnionCal / NamedCal / CalType through DateRoll and records what they did.
//!
//! Event (one per calendar object):
//!   {"op":"cal","key":..,"kind":..,"w0":day,"n":len,"bus":[30-bit words],"stl":[..],"q":[query..]}
//! bus/stl are projections of the REAL object (is_bus_day / is_settlement on every day of the window).
//! Query: {"f":"roll","d":..,"m":"ModF","s":true,"o":"ok","r":day} and similar; "o" is ok|err|panic.
use crate::util::*;
use chrono::NaiveDateTime;
use rateslib::calendars::{
    get_eom, get_imm, get_roll, is_eom, is_imm, is_leap_year, Cal, CalType, DateRoll, Modifier, NamedCal, RollDay,
    UnionCal,
};
use rateslib::verif::calendar_py as cpy;
use serde_json::{json, Value};

pub const MODS: [(&str, Modifier); 5] = [
    ("Act", Modifier::Act),
    ("F", Modifier::F),
    ("P", Modifier::P),
    ("ModF", Modifier::ModF),
    ("ModP", Modifier::ModP),
];

pub fn bitmap(lo: i64, hi: i64, f: impl Fn(&NaiveDateTime) -> bool) -> Value {
    let n = (hi - lo + 1) as usize;
    let mut words = vec![0i64; (n + 29) / 30];
    for j in 0..n {
        if f(&dn(lo + j as i64)) {
            words[j / 30] |= 1 << (j % 30);
        }
    }
    json!(words)
}

fn date_out(o: Outcome<NaiveDateTime>) -> (String, i64) {
    match o {
        Outcome::Ok(d) => ("ok".into(), nd(&d)),
        Outcome::Panic(_) => ("panic".into(), 0),
    }
}

pub fn roll_json(r: &RollDay) -> Value {
    match r {
        RollDay::Unspecified {} => json!({"k": "Unspecified"}),
        RollDay::Int { day } => json!({"k": "Int", "day": day}),
        RollDay::EoM {} => json!({"k": "EoM"}),
        RollDay::SoM {} => json!({"k": "SoM"}),
        RollDay::IMM {} => json!({"k": "IMM"}),
    }
}

// ------------------------------------------------------------------------------------------ the Python-facing classes
/// `Cal` / `UnionCal` / `NamedCal` as Python sees them: every DateRoll method goes through the `#[pymethods]` item of
/// the same name (cfg-guarded hooks in rust/calendars/calendar_py.rs), so the unchanged drivers and the unchanged
/// specification judge the Python layer. A raised exception where the core signature has no error is a panic here.
macro_rules! py_wrapper {
    ($W:ident, $T:ty, $date:path, $pred:path, $range:path) => {
        pub struct $W(pub $T);
        impl $W {
            fn args(date: &NaiveDateTime, days: i8, months: i32, modifier: &Modifier, roll: &RollDay, settlement: bool) -> cpy::DateArgs {
                cpy::DateArgs { date: *date, days, months, modifier: *modifier, roll: *roll, settlement }
            }
        }
        impl DateRoll for $W {
            fn is_weekday(&self, date: &NaiveDateTime) -> bool { self.0.is_weekday(date) }
            fn is_holiday(&self, date: &NaiveDateTime) -> bool { self.0.is_holiday(date) }
            fn is_settlement(&self, date: &NaiveDateTime) -> bool { $pred(&self.0, "is_settlement", *date).unwrap() }
            fn is_bus_day(&self, date: &NaiveDateTime) -> bool { $pred(&self.0, "is_bus_day", *date).unwrap() }
            fn is_non_bus_day(&self, date: &NaiveDateTime) -> bool { $pred(&self.0, "is_non_bus_day", *date).unwrap() }
            fn roll(&self, date: &NaiveDateTime, modifier: &Modifier, settlement: bool) -> NaiveDateTime {
                $date(&self.0, "roll", &Self::args(date, 0, 0, modifier, &RollDay::Unspecified {}, settlement)).expect("roll raised")
            }
            fn lag(&self, date: &NaiveDateTime, days: i8, settlement: bool) -> NaiveDateTime {
                $date(&self.0, "lag", &Self::args(date, days, 0, &Modifier::Act, &RollDay::Unspecified {}, settlement)).expect("lag raised")
            }
            fn add_days(&self, date: &NaiveDateTime, days: i8, modifier: &Modifier, settlement: bool) -> NaiveDateTime {
                $date(&self.0, "add_days", &Self::args(date, days, 0, modifier, &RollDay::Unspecified {}, settlement)).expect("add_days raised")
            }
            fn add_bus_days(&self, date: &NaiveDateTime, days: i8, settlement: bool) -> Result<NaiveDateTime, pyo3::PyErr> {
                $date(&self.0, "add_bus_days", &Self::args(date, days, 0, &Modifier::Act, &RollDay::Unspecified {}, settlement)).map_err(pyo3::exceptions::PyValueError::new_err)
            }
            fn add_months(&self, date: &NaiveDateTime, months: i32, modifier: &Modifier, roll: &RollDay, settlement: bool) -> NaiveDateTime {
                $date(&self.0, "add_months", &Self::args(date, 0, months, modifier, roll, settlement)).expect("add_months raised")
            }
            fn bus_date_range(&self, start: &NaiveDateTime, end: &NaiveDateTime) -> Result<Vec<NaiveDateTime>, pyo3::PyErr> {
                $range(&self.0, "bus_date_range", *start, *end).map_err(pyo3::exceptions::PyValueError::new_err)
            }
            fn cal_date_range(&self, start: &NaiveDateTime, end: &NaiveDateTime) -> Result<Vec<NaiveDateTime>, pyo3::PyErr> {
                $range(&self.0, "cal_date_range", *start, *end).map_err(pyo3::exceptions::PyValueError::new_err)
            }
        }
    };
}
py_wrapper!(PyCal, Cal, cpy::cal_date, cpy::cal_pred, cpy::cal_range);
py_wrapper!(PyUnion, UnionCal, cpy::union_date, cpy::union_pred, cpy::union_range);
py_wrapper!(PyNamed, NamedCal, cpy::named_date, cpy::named_pred, cpy::named_range);

pub struct Q<'a, T: DateRoll> {
    pub cal: &'a T,
    pub out: Vec<Value>,
}
impl<'a, T: DateRoll> Q<'a, T> {
    pub fn roll(&mut self, d: i64, mi: usize, s: bool) {
        let (o, r) = date_out(guard(|| self.cal.roll(&dn(d), &MODS[mi].1, s)));
        self.out.push(json!({"f":"roll","d":d,"m":MODS[mi].0,"s":s,"o":o,"r":r}));
    }
    pub fn add_bus(&mut self, d: i64, n: i8, s: bool) {
        let res = guard(|| self.cal.add_bus_days(&dn(d), n, s));
        let (o, r) = match res {
            Outcome::Ok(Ok(x)) => ("ok", nd(&x)),
            Outcome::Ok(Err(_)) => ("err", 0),
            Outcome::Panic(_) => ("panic", 0),
        };
        self.out.push(json!({"f":"add_bus","d":d,"n":n,"s":s,"o":o,"r":r}));
    }
    pub fn lag(&mut self, d: i64, n: i8, s: bool) {
        let (o, r) = date_out(guard(|| self.cal.lag(&dn(d), n, s)));
        self.out.push(json!({"f":"lag","d":d,"n":n,"s":s,"o":o,"r":r}));
    }
    pub fn add_days(&mut self, d: i64, n: i8, mi: usize, s: bool) {
        let (o, r) = date_out(guard(|| self.cal.add_days(&dn(d), n, &MODS[mi].1, s)));
        self.out.push(json!({"f":"add_days","d":d,"n":n,"m":MODS[mi].0,"s":s,"o":o,"r":r}));
    }
    pub fn range(&mut self, a: i64, b: i64) {
        let res = guard(|| self.cal.bus_date_range(&dn(a), &dn(b)));
        let (o, r): (&str, Vec<i64>) = match res {
            Outcome::Ok(Ok(v)) => ("ok", v.iter().map(nd).collect()),
            Outcome::Ok(Err(_)) => ("err", vec![]),
            Outcome::Panic(_) => ("panic", vec![]),
        };
        self.out.push(json!({"f":"range","a":a,"b":b,"o":o,"r":r}));
    }
    pub fn non_bus(&mut self, d: i64) {
        let (o, r) = match guard(|| self.cal.is_non_bus_day(&dn(d))) { Outcome::Ok(b) => ("ok", b), Outcome::Panic(_) => ("panic", false) };
        self.out.push(json!({"f":"non_bus","d":d,"o":o,"r":r}));
    }
    pub fn cal_range(&mut self, a: i64, b: i64) {
        let res = guard(|| self.cal.cal_date_range(&dn(a), &dn(b)));
        let (o, r): (&str, Vec<i64>) = match res {
            Outcome::Ok(Ok(v)) => ("ok", v.iter().map(nd).collect()),
            Outcome::Ok(Err(_)) => ("err", vec![]),
            Outcome::Panic(_) => ("panic", vec![]),
        };
        self.out.push(json!({"f":"cal_range","a":a,"b":b,"o":o,"r":r}));
    }
    pub fn add_months(&mut self, d: i64, months: i32, mi: usize, roll: &RollDay, s: bool) {
        let (o, r) = date_out(guard(|| self.cal.add_months(&dn(d), months, &MODS[mi].1, roll, s)));
        self.out.push(json!({"f":"add_months","d":d,"mo":months,"m":MODS[mi].0,"roll":roll_json(roll),"s":s,"o":o,"r":r}));
    }
}

pub fn event<T: DateRoll>(key: &str, kind: &str, cal: &T, lo: i64, hi: i64, q: Vec<Value>) -> Value {
    json!({"op":"cal","key":key,"kind":kind,"w0":lo,"n":hi-lo+1,
           "bus": bitmap(lo, hi, |d| cal.is_bus_day(d)),
           "stl": bitmap(lo, hi, |d| cal.is_settlement(d)),
           "q": q})
}
/// what a `Cal` was BUILT from, next to what it answers: the supplied holiday list (in the order supplied, window part)
/// and week mask, with the object's own is_bus_day bitmap - the specification holds the two together
pub fn cal_def(c: &Cal, hols: &[NaiveDateTime], mask: &[u8], lo: i64, hi: i64) -> Value {
    let h: Vec<i64> = hols.iter().map(nd).filter(|d| *d >= lo && *d <= hi).collect();
    json!({"bits": bitmap(lo, hi, |d| c.is_bus_day(d)), "hols": h, "mask": mask})
}
/// what the Python-facing GETTERS of the three calendar classes show (`holidays`, `week_mask`; `calendars`,
/// `settlement_calendars`; `name`, `union_cal`), next to what the object answers
pub fn pyv_cal(c: &Cal, lo: i64, hi: i64) -> Value {
    match guard(|| cpy::cal_view(c)) {
        Outcome::Ok(Ok((h, w))) => json!({"o": "ok", "hols": h.iter().map(nd).filter(|d| *d >= lo && *d <= hi).collect::<Vec<i64>>(), "mask": w}),
        Outcome::Ok(Err(e)) => json!({"o": e}),
        Outcome::Panic(_) => json!({"o": "panic"}),
    }
}
pub fn pyv_union(u: &UnionCal, lo: i64, hi: i64) -> Value {
    match guard(|| cpy::union_parts(u)) {
        Outcome::Ok((m, s)) => json!({"o": "ok", "mb": m.iter().map(|c| bitmap(lo, hi, |d| c.is_bus_day(d))).collect::<Vec<Value>>(),
                                      "sb": s.as_ref().map(|v| v.iter().map(|c| bitmap(lo, hi, |d| c.is_bus_day(d))).collect::<Vec<Value>>()).unwrap_or_default(), "hs": s.is_some()}),
        Outcome::Panic(_) => json!({"o": "panic"}),
    }
}
pub fn pyv_named(n: &NamedCal, want: &str, lo: i64, hi: i64) -> Value {
    match guard(|| cpy::named_parts(n)) {
        Outcome::Ok((name, u)) => json!({"o": "ok", "name": name, "want_name": want, "ubus": bitmap(lo, hi, |d| u.is_bus_day(d)), "ustl": bitmap(lo, hi, |d| u.is_settlement(d))}),
        Outcome::Panic(_) => json!({"o": "panic"}),
    }
}
/// the same, with the projections of the individually built member / settlement calendars of a union
pub fn event_u<T: DateRoll>(key: &str, kind: &str, cal: &T, parts: (&Vec<Cal>, &Option<Vec<Cal>>), lo: i64, hi: i64, q: Vec<Value>) -> Value {
    let mut e = event(key, kind, cal, lo, hi, q);
    let mb: Vec<Value> = parts.0.iter().map(|c| bitmap(lo, hi, |d| c.is_bus_day(d))).collect();
    let sb: Vec<Value> = parts.1.as_ref().map(|v| v.iter().map(|c| bitmap(lo, hi, |d| c.is_bus_day(d))).collect()).unwrap_or_default();
    e["mb"] = json!(mb);
    e["sb"] = json!(sb);
    e["hs"] = json!(parts.1.is_some());
    e
}

fn days(v: &Value) -> Vec<NaiveDateTime> {
    v.as_array().unwrap().iter().map(|x| dn(x.as_i64().unwrap())).collect()
}
fn mask(v: &Value) -> Vec<u8> {
    v.as_array().unwrap().iter().map(|x| x.as_u64().unwrap() as u8).collect()
}

/// the full query battery of the model (MC_Calendar's RollQ, AddQ and DerivedAgree domains)
fn battery<T: DateRoll>(cal: &T, q0: i64, q1: i64, nmax: i64, with_s: bool) -> Vec<Value> {
    let mut q = Q { cal, out: vec![] };
    let flags: &[bool] = if with_s { &[false, true] } else { &[false] };
    for d in q0..=q1 {
        for &s in flags {
            for mi in 0..5 {
                q.roll(d, mi, s);
            }
            for n in -nmax..=nmax {
                q.add_bus(d, n as i8, s);
                q.lag(d, n as i8, s);
            }
            for n in [-3i8, -1, 0, 2] {
                for mi in 0..5 {
                    q.add_days(d, n, mi, s);
                }
            }
        }
        for b in q0..=q1 {
            q.range(d, b);
        }
        q.non_bus(d);
        q.cal_range(d, q1);
        q.cal_range(q1, d);
    }
    q.out
}

/// replay TLC-generated calendar families (Gen_Calendar) into real objects
pub fn replay(cases: &str, out: &str) {
    let mut o = Out::create(out);
    let wd = Watchdog::start(out, 60);
    for (i, c) in read_ndjson(cases).iter().enumerate() {
        wd.enter(&format!("gen/{}", i));
        let (lo, hi) = (c["lo"].as_i64().unwrap(), c["hi"].as_i64().unwrap());
        let (q0, q1, nmax) = (c["q0"].as_i64().unwrap(), c["q1"].as_i64().unwrap(), c["nmax"].as_i64().unwrap());
        // (TLC writes the holiday sets in ascending order; every other case hands them to the constructor reversed, every
        //  third rotated, so that nothing downstream can rely on a sorted list)
        let disorder = |mut v: Vec<NaiveDateTime>| -> Vec<NaiveDateTime> {
            if i % 2 == 1 { v.reverse(); }
            if i % 3 == 2 && v.len() > 1 { v.rotate_left(1); }
            v
        };
        let (bh, sh) = (disorder(days(&c["bh"])), disorder(days(&c["sh"])));
        let bcal = Cal::new(bh.clone(), mask(&c["mask"]));
        let scal = Cal::new(sh.clone(), mask(&c["mask"]));
        // plain Cal : no settlement dimension; emitted once per distinct (bh, mask), i.e. when sh is empty
        if c["sh"].as_array().unwrap().is_empty() {
            let q = battery(&bcal, q0, q1, nmax, true);
            let mut e = event(&format!("gen/{}/Cal", i), "Cal", &bcal, lo, hi, q);
            e["defs"] = json!([cal_def(&bcal, &bh, &mask(&c["mask"]), lo, hi)]);
            o.emit(&e);
            let pc = PyCal(bcal.clone());
            let q = battery(&pc, q0, q1, nmax, true);
            let mut e = event(&format!("gen/{}/PyCal", i), "PyCal", &pc, lo, hi, q);
            e["defs"] = json!([cal_def(&bcal, &bh, &mask(&c["mask"]), lo, hi)]);
            e["pyv"] = pyv_cal(&pc.0, lo, hi);
            o.emit(&e);
        }
        let parts = (vec![bcal.clone()], Some(vec![scal.clone()]));
        let u = UnionCal::new(parts.0.clone(), parts.1.clone());
        if i % 4 == 1 {
            let pu = PyUnion(u);
            let q = battery(&pu, q0, q1, nmax, true);
            let mut e = event_u(&format!("gen/{}/PyUnionCal", i), "PyUnionCal", &pu, (&parts.0, &parts.1), lo, hi, q);
            e["pyv"] = pyv_union(&pu.0, lo, hi);
            o.emit(&e);
        } else if i % 2 == 0 {
            let q = battery(&u, q0, q1, nmax, true);
            o.emit(&event_u(&format!("gen/{}/UnionCal", i), "UnionCal", &u, (&parts.0, &parts.1), lo, hi, q));
        } else {
            let t = CalType::UnionCal(u);
            let q = battery(&t, q0, q1, nmax, true);
            o.emit(&event_u(&format!("gen/{}/CalType", i), "CalType", &t, (&parts.0, &parts.1), lo, hi, q));
        }
    }
    eprintln!("cal replay: {} events", o.finish());
}

// ------------------------------------------------------------------------------------------ random recording
fn rand_mask(r: &mut Rng, common: u8) -> Vec<u8> {
    // a week mask that always leaves weekday `common` working
    let style = r.below(6);
    let mut m: Vec<u8> = match style {
        0 | 1 => vec![5, 6],
        2 => vec![4, 5],
        3 => vec![],
        4 => vec![6],
        _ => (0..7u8).filter(|_| r.chance(0.4)).collect(),
    };
    m.retain(|w| *w != common);
    m
}
fn rand_hols(r: &mut Rng, lo: i64, hi: i64, centre: i64) -> Vec<NaiveDateTime> {
    let mut v = vec![];
    // clusters near the centre (where queries concentrate) and near month ends, plus scattered days
    let nclusters = r.below(4);
    for _ in 0..nclusters {
        let c = centre + r.range(-40, 40);
        let len = r.range(1, 6);
        for k in 0..len {
            if r.chance(0.8) {
                v.push(c + k);
            }
        }
    }
    for _ in 0..r.below(25) {
        v.push(r.range(lo, hi));
    }
    // now and then a long closure (8 to 16 consecutive days, every one a listed holiday: longer than any week-based
    // scan would cover, far shorter than the window) right where the queries concentrate
    if r.chance(0.3) {
        let c = centre + r.range(-12, 6);
        for k in 0..r.range(8, 16) {
            v.push(c + k);
        }
    }
    v.into_iter().filter(|d| *d >= lo && *d <= hi).map(dn).collect()
}

// (the last two combine calendars whose WEEK MASKS differ: 'all' works seven days a week)
const NAMED: [&str; 18] = [
    "tgt", "nyc", "ldn", "fed", "stk", "osl", "zur", "tro", "tyo", "syd", "wlg", "mum", "bus", "all", "tgt,ldn|fed",
    "nyc,tro|tgt,ldn", "all,ldn", "all,tgt|all,fed",
];

fn rand_rollday(r: &mut Rng) -> RollDay {
    match r.below(6) {
        0 => RollDay::Unspecified {},
        1 => RollDay::EoM {},
        2 => RollDay::SoM {},
        3 => RollDay::IMM {},
        _ => RollDay::Int { day: r.range(1, 31) as u32 },
    }
}

fn month_end_near(r: &mut Rng, centre: i64) -> i64 {
    // a date within 4 days of some month end near the centre
    let t = dn(centre);
    use chrono::Datelike;
    let e = nd(&get_eom(t.year(), t.month()));
    e + r.range(-4, 4)
}

fn random_queries<T: DateRoll>(cal: &T, r: &mut Rng, centre: i64, nq: usize, lo: i64, hi: i64) -> Vec<Value> {
    let mut q = Q { cal, out: vec![] };
    let extremes: [i8; 13] = [-128, -127, -64, -5, -2, -1, 0, 1, 2, 5, 63, 126, 127];
    for _ in 0..nq {
        let off = r.range(-60, 60);
        let d = if r.chance(0.5) { month_end_near(r, centre + off) } else { centre + r.range(-45, 45) };
        let s = r.coin();
        let n: i8 = if r.chance(0.3) { *r.pick(&extremes) } else { r.range(-12, 12) as i8 };
        match r.below(7) {
            0 | 1 => {
                let mi = r.below(5) as usize;
                q.roll(d, mi, s)
            }
            2 => q.add_bus(d, n, s),
            3 => q.lag(d, n, s),
            4 => {
                let mi = r.below(5) as usize;
                q.add_days(d, n, mi, s)
            }
            5 => {
                let a = d;
                let b = d + r.range(-3, 40);
                q.range(a, b);
                if r.chance(0.3) { q.cal_range(a, b); }
                if r.chance(0.3) { q.non_bus(b); }
            }
            _ => {
                // month offsets landing inside the window
                let mo = r.range(-9, 9) as i32;
                let roll = rand_rollday(r);
                let mi = r.below(5) as usize;
                q.add_months(d, mo, mi, &roll, s)
            }
        }
    }
    let _ = (lo, hi);
    q.out
}

/// centre between 1974 and 2196 and a window wide enough for 128 business days either side of any query
fn window(r: &mut Rng, working_days_per_week: i64) -> (i64, i64, i64) {
    let w = working_days_per_week.max(1);
    let half = 170 + (140 * 7 + w - 1) / w + 80;
    let centre = r.range(1500, 82600);
    (centre, (centre - half).max(-300), centre + half)
}

pub fn record(seed: u64, n: usize, out: &str) {
    let mut r = Rng::new(seed ^ 0xCA1);
    let mut o = Out::create(out);
    let wd = Watchdog::start(out, 60);
    for i in 0..n {
        // centre between 1972 and 2198
        let nq = 40;
        match r.below(5) {
            0 => {
                let common = r.below(5) as u8;
                let mask = rand_mask(&mut r, common);
                let (centre, lo, hi) = window(&mut r, 7 - mask.len() as i64);
                let hols = rand_hols(&mut r, lo, hi, centre);
                let c = Cal::new(hols.clone(), mask.clone());
                let def = cal_def(&c, &hols, &mask, lo, hi);
                wd.enter(&format!("rnd/{}/Cal", i));
                if r.chance(0.3) {
                    let pc = PyCal(c);
                    let q = random_queries(&pc, &mut r, centre, nq, lo, hi);
                    wd.leave();
                    let mut e = event(&format!("rnd/{}/PyCal", i), "PyCal", &pc, lo, hi, q);
                    e["defs"] = json!([def]);
                    e["pyv"] = pyv_cal(&pc.0, lo, hi);
                    o.emit(&e);
                } else {
                    let q = random_queries(&c, &mut r, centre, nq, lo, hi);
                    wd.leave();
                    let mut e = event(&format!("rnd/{}/Cal", i), "Cal", &c, lo, hi, q);
                    e["defs"] = json!([def]);
                    o.emit(&e);
                }
            }
            1 | 2 => {
                let common = r.below(5) as u8;
                let nm = 1 + r.below(3);
                let ns = r.below(3);
                let masks: Vec<Vec<u8>> = (0..(nm + ns)).map(|_| rand_mask(&mut r, common)).collect();
                // working weekdays of the union of all members and settlement calendars
                let working = (0..7u8).filter(|w| masks.iter().all(|m| !m.contains(w))).count() as i64;
                let (centre, lo, hi) = window(&mut r, working);
                let mut defs = vec![];
                let mut build = |r: &mut Rng, m: &Vec<u8>| -> Cal {
                    let hols = rand_hols(r, lo, hi, centre);
                    let c = Cal::new(hols.clone(), m.clone());
                    defs.push(cal_def(&c, &hols, m, lo, hi));
                    c
                };
                let members: Vec<Cal> = (0..nm as usize).map(|k| build(&mut r, &masks[k])).collect();
                let settle: Option<Vec<Cal>> = if ns == 0 && r.coin() {
                    None
                } else {
                    Some((0..ns as usize).map(|k| build(&mut r, &masks[nm as usize + k])).collect())
                };
                let u = UnionCal::new(members.clone(), settle.clone());
                let with_defs = |mut e: Value| -> Value { e["defs"] = json!(defs); e };
                if r.chance(0.3) {
                    let pu = PyUnion(u);
                    wd.enter(&format!("rnd/{}/PyUnionCal", i));
                    let q = random_queries(&pu, &mut r, centre, nq, lo, hi);
                    let mut e = with_defs(event_u(&format!("rnd/{}/PyUnionCal", i), "PyUnionCal", &pu, (&members, &settle), lo, hi, q));
                    e["pyv"] = pyv_union(&pu.0, lo, hi);
                    o.emit(&e);
                } else if r.coin() {
                    wd.enter(&format!("rnd/{}/UnionCal", i));
                    let q = random_queries(&u, &mut r, centre, nq, lo, hi);
                    o.emit(&with_defs(event_u(&format!("rnd/{}/UnionCal", i), "UnionCal", &u, (&members, &settle), lo, hi, q)));
                } else {
                    let t = CalType::UnionCal(u);
                    wd.enter(&format!("rnd/{}/CalType", i));
                    let q = random_queries(&t, &mut r, centre, nq, lo, hi);
                    o.emit(&with_defs(event_u(&format!("rnd/{}/CalType", i), "CalType", &t, (&members, &settle), lo, hi, q)));
                }
                wd.leave();
            }
            _ => {
                let name = *r.pick(&NAMED);
                let (centre, lo, hi) = window(&mut r, 3);
                let c = NamedCal::try_new(name).expect("built-in name");
                let u = rateslib::verif::named_cal_union(&c).clone();
                let parts = rateslib::verif::union_cal_parts(&u);
                wd.enter(&format!("rnd/{}/NamedCal:{}", i, name));
                if r.chance(0.3) {
                    let pn = PyNamed(c);
                    let q = random_queries(&pn, &mut r, centre, nq, lo, hi);
                    let mut e = event_u(&format!("rnd/{}/PyNamedCal:{}", i, name), "PyNamedCal", &pn, parts, lo, hi, q);
                    e["pyv"] = pyv_named(&pn.0, name, lo, hi);
                    o.emit(&e);
                } else if r.coin() {
                    let q = random_queries(&c, &mut r, centre, nq, lo, hi);
                    o.emit(&event_u(&format!("rnd/{}/NamedCal:{}", i, name), "NamedCal", &c, parts, lo, hi, q));
                } else {
                    let t = CalType::NamedCal(c);
                    let q = random_queries(&t, &mut r, centre, nq, lo, hi);
                    o.emit(&event_u(&format!("rnd/{}/CalType:{}", i, name), "CalType", &t, parts, lo, hi, q));
                }
                wd.leave();
            }
        }
    }
    // calendars with ONE working day a week (six masked weekdays: still a calendar inside every property's quantifier),
    // one per choice of the working day, core and Python-facing
    for wdk in 0..7u8 {
        let mask: Vec<u8> = (0..7u8).filter(|w| *w != wdk).collect();
        let (centre, lo, hi) = window(&mut r, 1);
        let hols = rand_hols(&mut r, lo, hi, centre);
        let c = Cal::new(hols.clone(), mask.clone());
        let def = cal_def(&c, &hols, &mask, lo, hi);
        wd.enter(&format!("oneday/{}/Cal", wdk));
        let q = random_queries(&c, &mut r, centre, 25, lo, hi);
        let mut e = event(&format!("oneday/{}/Cal", wdk), "Cal", &c, lo, hi, q);
        e["defs"] = json!([def.clone()]);
        o.emit(&e);
        let pc = PyCal(c);
        let q = random_queries(&pc, &mut r, centre, 25, lo, hi);
        let mut e = event(&format!("oneday/{}/PyCal", wdk), "PyCal", &pc, lo, hi, q);
        e["defs"] = json!([def]);
        e["pyv"] = pyv_cal(&pc.0, lo, hi);
        wd.leave();
        o.emit(&e);
    }
    eprintln!("cal record: {} events", o.finish());
}

// ------------------------------------------------------------------------------------------ month arithmetic (C08)
/// add_months on the all-days calendar with Modifier::Act (so no adjustment), plus the free functions.
/// Events: {"op":"months","key":..,"q":[{"f":"add_months_raw","d":..,"mo":..,"roll":..,"o":..,"r":..}, ...]}
pub fn months(mode: &str, seed: u64, out: &str) {
    use chrono::Datelike;
    let mut o = Out::create(out);
    let all = NamedCal::try_new("all").unwrap();
    let mut r = Rng::new(seed ^ 0x0C08);
    let rolls: Vec<RollDay> = {
        let mut v = vec![RollDay::Unspecified {}, RollDay::EoM {}, RollDay::SoM {}, RollDay::IMM {}];
        for day in 1..=31u32 {
            v.push(RollDay::Int { day });
        }
        v
    };
    // (a) the free functions on every month / year of the supported range
    let mut q = vec![];
    for y in 1970..=2200i32 {
        q.push(json!({"f":"is_leap","y":y,"r": is_leap_year(y)}));
        for m in 1..=12u32 {
            let imm = get_imm(y, m);
            let eom = get_eom(y, m);
            q.push(json!({"f":"imm_eom","y":y,"m":m,"imm":nd(&imm),"eom":nd(&eom),
                          "is_imm_at": is_imm(&imm), "is_eom_at": is_eom(&eom),
                          "is_imm_prev": is_imm(&(dn(nd(&imm) - 7))), "is_eom_prev": is_eom(&dn(nd(&eom) - 1))}));
        }
        if q.len() > 400 {
            o.emit(&json!({"op":"months","key":format!("free/{}", y),"q":q}));
            q = vec![];
        }
    }
    o.emit(&json!({"op":"months","key":"free/last","q":q}));
    // (b) get_roll for every roll kind on a covering set of months (all month lengths, leap and non-leap Februaries)
    let mut q = vec![];
    for y in [1999, 2000, 2023, 2024, 2100, 2199] {
        for m in 1..=12u32 {
            for roll in rolls.iter() {
                let res = guard(|| get_roll(y, m, roll));
                let (oc, rr) = match res {
                    Outcome::Ok(Ok(x)) => ("ok", nd(&x)),
                    Outcome::Ok(Err(_)) => ("err", 0),
                    Outcome::Panic(_) => ("panic", 0),
                };
                q.push(json!({"f":"get_roll","y":y,"m":m,"roll":roll_json(roll),"o":oc,"r":rr}));
            }
        }
        o.emit(&json!({"op":"months","key":format!("get_roll/{}", y),"q":q}));
        q = vec![];
    }
    // (c) add_months with Act: covering classes (start month x offset mod 12 x sign x |offset|>=12) x roll kinds x years
    // (the first and the last years of the supported range are start years too: results in 1970 and in 2200 are valid)
    let years: &[i32] = if mode == "quick" { &[1971, 2000, 2023, 2199] } else { &[1970, 1971, 1999, 2000, 2023, 2024, 2100, 2150, 2199, 2200] };
    // every other month goes through the Python-facing `NamedCal.add_months` instead of the trait method
    let py_all = PyNamed(all.clone());
    let offsets: Vec<i32> = {
        let mut v: Vec<i32> = (-40..=40).collect();
        // (offsets of 128 years and more: the whole-year part no longer fits eight bits)
        for k in [48, 60, 120, 240, 1200, 1536, 1548, 2400] {
            for j in [-1, 0, 1, 5, 11] {
                v.push(k + j);
                v.push(-(k + j));
            }
        }
        v
    };
    for &y in years {
        for m in 1..=12u32 {
            let mut q = vec![];
            let dim = nd(&get_eom(y, m)) - nd(&ymd(y, m, 1)) + 1;
            for day in [1i64, 15, 28, 29, 30, 31] {
                if day > dim {
                    continue;
                }
                let d = nd(&ymd(y, m, day as u32));
                for &mo in offsets.iter() {
                    // land inside 1970..2200
                    let tot = (y as i64) * 12 + (m as i64 - 1) + mo as i64;
                    if tot < 1970 * 12 || tot > 2200 * 12 + 11 {
                        continue;
                    }
                    // all roll kinds for small offsets, a random pair for the long ones
                    let picks: Vec<RollDay> = if mo.abs() <= 13 && (day == 31 || day == 15 || day == dim) {
                        rolls.clone()
                    } else {
                        vec![RollDay::Unspecified {}, *r.pick(&rolls), *r.pick(&rolls)]
                    };
                    for roll in picks.iter() {
                        let (oc, rr) = if m % 2 == 0 { date_out(guard(|| py_all.add_months(&dn(d), mo, &Modifier::Act, roll, false))) }
                                       else { date_out(guard(|| all.add_months(&dn(d), mo, &Modifier::Act, roll, false))) };
                        q.push(json!({"f":"add_months_raw","d":d,"mo":mo,"roll":roll_json(roll),"via": if m % 2 == 0 { "py" } else { "core" },"o":oc,"r":rr}));
                    }
                }
            }
            o.emit(&json!({"op":"months","key":format!("add_months/{}-{}", y, m),"q":q}));
        }
    }
    let _ = Datelike::year(&dn(0));
    eprintln!("cal months: {} events", o.finish());
}

pub fn main(args: &[String]) {
    match args[0].as_str() {
        "replay" => replay(&args[1], &args[2]),
        "record" => record(arg_u64(args, "--seed", 1), arg_u64(args, "--n", 100) as usize, &arg_val(args, "--out").unwrap()),
        "months" => months(&arg_val(args, "--mode").unwrap_or("quick".into()), arg_u64(args, "--seed", 1), &arg_val(args, "--out").unwrap()),
        _ => panic!("unknown cal subcommand"),
    }
}
