//! FX engine (C09, C10): builds real FXRates objects, performs operation histories on them and records, after
//! every step, the full projected state: currency order, derivative order, every cross rate with its gradient
//! (read back BY THE EXPECTED VARIABLE NAMES) and, for a probe subset, its Hessian.
//!
//! One output line per history: {"h":i,"key":..,"ev":[event..]}; event = {"op":"new"|"update"|"set_order", .., "o":.., "state":..}
use crate::util::*;
use chrono::NaiveDateTime;
use rateslib::dual::{ADOrder, Dual, Number};
use rateslib::fx::rates::{Ccy, FXRate, FXRates};
use serde_json::{json, Value};

const NAMES: [&str; 14] = ["usd", "eur", "gbp", "jpy", "cad", "aud", "nzd", "sek", "nok", "chf", "inr", "cnh", "mxn", "zar"];

#[derive(Clone)]
pub struct Quote {
    pub l: String,
    pub r: String,
    pub v: f64,
    pub vars: Vec<String>, // how the quote depends on variables (for a float quote: the single fx_<l><r>)
    pub g: Vec<f64>,
    pub is_dual: bool,
    pub h: Vec<Vec<f64>>, // non-empty: a SECOND-order quote with this (symmetric) Hessian in its own variables
    pub settle: i64, // 0 = none, otherwise a day number
}
impl Quote {
    pub fn float(l: &str, r: &str, v: f64, settle: i64) -> Self {
        Quote { l: l.into(), r: r.into(), v, vars: vec![format!("fx_{}{}", l, r)], g: vec![1.0], is_dual: false, h: vec![], settle }
    }
    pub fn dual(l: &str, r: &str, v: f64, vars: Vec<String>, g: Vec<f64>, settle: i64) -> Self {
        Quote { l: l.into(), r: r.into(), v, vars, g, is_dual: true, h: vec![], settle }
    }
    pub fn dual2(l: &str, r: &str, v: f64, vars: Vec<String>, g: Vec<f64>, h: Vec<Vec<f64>>, settle: i64) -> Self {
        Quote { l: l.into(), r: r.into(), v, vars, g, is_dual: true, h, settle }
    }
    pub fn to_rate(&self) -> Result<FXRate, String> {
        let num = if !self.h.is_empty() {
            // the stored second-order array is half the Hessian
            let half: Vec<f64> = self.h.iter().flatten().map(|x| 0.5 * x).collect();
            Number::Dual2(rateslib::dual::Dual2::try_new(self.v, self.vars.clone(), self.g.clone(), half).map_err(|e| e.to_string())?)
        } else if self.is_dual {
            Number::Dual(Dual::try_new(self.v, self.vars.clone(), self.g.clone()).map_err(|e| e.to_string())?)
        } else {
            Number::F64(self.v)
        };
        let s: Option<NaiveDateTime> = if self.settle == 0 { None } else { Some(dn(self.settle)) };
        // currency codes are case-insensitive on the way in (stored lower-cased): hand them over in mixed case,
        // chosen by the bits of the rate so that the same code arrives in different spellings within one market
        let bits = self.v.to_bits();
        let spell = |c: &str, k: u64| match (bits >> k) & 3 { 0 => c.to_uppercase(), 1 => { let mut t = c.to_string(); t[..1].make_ascii_uppercase(); t } _ => c.to_string() };
        FXRate::try_new(&spell(&self.l, 3), &spell(&self.r, 7), num, s).map_err(|e| e.to_string())
    }
    pub fn json(&self) -> Value {
        json!({"l": self.l, "r": self.r, "v": fj(self.v), "vars": self.vars, "g": fvec(&self.g), "settle": self.settle,
               "h": fmat(&self.h), "kind": if !self.h.is_empty() {"D2"} else if self.is_dual {"D1"} else {"F"}})
    }
}

pub fn probe_names(quotes: &[Quote]) -> Vec<String> {
    let mut names: Vec<String> = vec![];
    for q in quotes {
        for v in &q.vars {
            if !names.contains(v) {
                names.push(v.clone());
            }
        }
    }
    names
}

/// projection of the real object
pub fn state_json(fxr: &FXRates, names: &[String], _r: &mut Rng) -> Value {
    let ccys = rateslib::verif::fxrates_currencies(fxr);
    let n = ccys.len();
    let order = rateslib::verif::fxrates_ad(fxr);
    let cc: Vec<Ccy> = ccys.iter().map(|c| Ccy::try_new(c).unwrap()).collect();
    let mut re = vec![];
    let mut g = vec![];
    let mut kinds = vec![];
    let mut present = vec![];
    let full_h = n <= 4;
    let mut hp: Vec<usize> = vec![]; // 1-based flat indices (i-1)*n + j of the pairs whose Hessian is logged
    let mut h = vec![];
    let mut hr = vec![];
    for i in 0..n {
        for j in 0..n {
            let x = fxr.rate(&cc[i], &cc[j]).expect("rate of known currencies");
            re.push(fj(number_re(&x)));
            g.push(fvec(&grad1(&x, names)));
            kinds.push(number_kind(&x));
            present.push(json!(number_vars(&x)));
            if order == 2 && (full_h || (i * 7 + j * 3) % ((n * n + 11) / 12) == 0) {
                hp.push(i * n + j + 1);
                h.push(fmat(&grad2(&x, names)));
                // the same Hessian asked for by the rate's OWN names in reverse order (exactly its variable set, another order)
                let mut own = number_vars(&x);
                own.reverse();
                hr.push(json!({"names": own, "m": fmat(&grad2(&x, &own))}));
            }
        }
    }
    let quotes: Vec<Value> = rateslib::verif::fxrates_quotes(fxr)
        .iter()
        .map(|(l, r_, num, s)| json!({"l": l, "r": r_, "v": fj(number_re(num)), "kind": number_kind(num), "settle": s.map(|d| nd(&d)).unwrap_or(0)}))
        .collect();
    // a currency outside the market has no rate
    let outsider = Ccy::try_new("xxx").unwrap();
    let none_ok = fxr.rate(&outsider, &cc[0]).is_none() && fxr.rate(&cc[0], &outsider).is_none();
    // the same market through the attributes and methods Python sees (rust/fx/rates_py.rs via the cfg-guarded hooks)
    let py = match guard(|| -> Result<Value, String> {
        use rateslib::verif::rates_py as rpy;
        let v = rpy::view(fxr)?;
        let arr: Vec<Value> = v.fx_array.iter().flat_map(|row| row.iter().map(|x| json!({"re": fj(number_re(x)), "g": fvec(&grad1(x, names)), "k": number_kind(x)}))).collect();
        let vecv: Vec<Value> = v.fx_vector.iter().map(|x| json!({"re": fj(number_re(x)), "g": fvec(&grad1(x, names)), "k": number_kind(x)})).collect();
        let mut idx: Vec<i64> = v.currencies.iter().map(|c| rpy::get_ccy_index(fxr, *c).map(|i| i as i64).unwrap_or(-1)).collect();
        idx.push(rpy::get_ccy_index(fxr, outsider).map(|i| i as i64).unwrap_or(-1));
        let mut rates = vec![];
        for a in v.currencies.iter() {
            for b in v.currencies.iter() {
                let x = rpy::rate(fxr, a, b)?.ok_or("no rate")?;
                rates.push(json!({"re": fj(number_re(&x)), "g": fvec(&grad1(&x, names)), "k": number_kind(&x)}));
            }
        }
        let pq: Vec<Value> = v.fx_rates.iter().map(|q| { let (p, n_, a, st) = rpy::quote_view(q).unwrap();
            json!({"pair": p, "v": fj(number_re(&n_)), "ad": a, "settle": st.map(|d| nd(&d)).unwrap_or(0)}) }).collect();
        Ok(json!({"ccys": v.currencies.iter().map(rateslib::verif::ccy_name).collect::<Vec<_>>(), "base": rateslib::verif::ccy_name(&v.base), "ad": v.ad,
                  "array": arr, "vector": vecv, "rate": rates, "idx": idx, "quotes": pq,
                  "outsider_none": rpy::rate(fxr, &outsider, &v.base)?.is_none(), "copy_eq": rpy::eq(fxr, rpy::copy(fxr))}))
    }) { Outcome::Ok(Ok(v)) => v, Outcome::Ok(Err(e)) => json!({"fail": e}), Outcome::Panic(_) => json!({"fail": "panic"}) };
    json!({"ccys": ccys, "order": order, "names": names, "re": re, "g": g, "kinds": kinds, "vars": present, "hp": hp, "h": h, "hr": hr,
           "quotes": quotes, "unknown_none": none_ok, "py": py})
}

fn try_new(quotes: &[Quote], base: &Option<String>) -> Outcome<Result<FXRates, String>> {
    let rates: Result<Vec<FXRate>, String> = quotes.iter().map(|q| q.to_rate()).collect();
    let base_ccy = base.as_ref().map(|b| Ccy::try_new(b).unwrap());
    match rates {
        Err(e) => Outcome::Ok(Err(e)),
        Ok(v) => guard(move || FXRates::try_new(v, base_ccy).map_err(|e| e.to_string())),
    }
}

fn ad(o: i64) -> ADOrder {
    match o {
        0 => ADOrder::Zero,
        1 => ADOrder::One,
        _ => ADOrder::Two,
    }
}

/// performs a history: construction followed by operations; returns the events
pub enum Op {
    Update(Vec<Quote>),
    SetOrder(i64),
}
pub fn perform(quotes: &[Quote], base: &Option<String>, ops: &[Op], r: &mut Rng) -> Vec<Value> {
    let mut ev = vec![];
    // sensitivities are read back by the names of the construction quotes and of every later re-quote
    let mut all_q: Vec<Quote> = quotes.to_vec();
    for op in ops {
        if let Op::Update(u) = op {
            all_q.extend(u.iter().cloned());
        }
    }
    let names = probe_names(&all_q);
    let qj: Vec<Value> = quotes.iter().map(|q| q.json()).collect();
    let basej: Vec<String> = base.iter().cloned().collect();
    // a third of the histories are made the way Python makes them: the class constructor, then the Python-facing `update` /
    // `set_ad_order` methods (a refusal is then a raised exception)
    use rateslib::verif::rates_py as rpy;
    let via_py = r.chance(0.34);
    let via = if via_py { "py" } else { "core" };
    let built = if via_py {
        let rates: Result<Vec<FXRate>, String> = quotes.iter().map(|q| q.to_rate()).collect();
        let base_ccy = base.as_ref().map(|b| Ccy::try_new(b).unwrap());
        match rates { Err(e) => Outcome::Ok(Err(e)), Ok(v) => guard(move || rpy::new(v, base_ccy)) }
    } else { try_new(quotes, base) };
    let mut fxr = match built {
        Outcome::Ok(Ok(f)) => {
            ev.push(json!({"op":"new","quotes":qj,"base":basej,"via":via,"o":"ok","state":state_json(&f, &names, r)}));
            f
        }
        Outcome::Ok(Err(_)) => {
            ev.push(json!({"op":"new","quotes":qj,"base":basej,"via":via,"o":"err"}));
            return ev;
        }
        Outcome::Panic(_) => {
            ev.push(json!({"op":"new","quotes":qj,"base":basej,"o":"panic"}));
            return ev;
        }
    };
    for op in ops {
        match op {
            Op::Update(upd) => {
                let uj: Vec<Value> = upd.iter().map(|q| q.json()).collect();
                let rates: Vec<FXRate> = upd.iter().map(|q| q.to_rate().unwrap()).collect();
                let mut f2 = fxr.clone();
                let res = guard(|| {
                    let ok = if via_py { rpy::update(&mut f2, rates).is_ok() } else { f2.update(rates).is_ok() };
                    (f2, ok)
                });
                match res {
                    Outcome::Ok((f2, ok)) => {
                        fxr = f2;
                        ev.push(json!({"op":"update","quotes":uj,"via":via,"o": if ok {"ok"} else {"err"},"state":state_json(&fxr, &names, r)}));
                    }
                    Outcome::Panic(_) => {
                        ev.push(json!({"op":"update","quotes":uj,"o":"panic"}));
                        return ev;
                    }
                }
            }
            Op::SetOrder(o) => {
                let mut f2 = fxr.clone();
                let res = guard(|| {
                    let ok = if via_py { rpy::set_ad_order(&mut f2, ad(*o)).is_ok() } else { f2.set_ad_order(ad(*o)).is_ok() };
                    (f2, ok)
                });
                match res {
                    Outcome::Ok((f2, ok)) => {
                        fxr = f2;
                        ev.push(json!({"op":"set_order","order":o,"via":via,"o": if ok {"ok"} else {"err"},"state":state_json(&fxr, &names, r)}));
                    }
                    Outcome::Panic(_) => {
                        ev.push(json!({"op":"set_order","order":o,"o":"panic"}));
                        return ev;
                    }
                }
            }
        }
    }
    ev
}

fn rand_rate(r: &mut Rng) -> f64 {
    // distinct values spanning six orders of magnitude
    10f64.powf(r.uniform(-3.0, 3.0))
}

/// a random operation sequence drawn from the model's operation alphabet
fn rand_ops(r: &mut Rng, quotes: &[Quote], len: usize) -> Vec<Op> {
    let mut cur: Vec<Quote> = quotes.to_vec();
    let mut ops = vec![];
    for _ in 0..len {
        match r.below(8) {
            0 | 1 | 2 => {
                // update one or two existing pairs with new values (kind of the quote preserved)
                // (now and then the SAME pair twice in one list: the later quote is the latest)
                let k = 1 + r.below(2) as usize;
                let mut upd = vec![];
                let twice = r.chance(0.3);
                let first = r.below(cur.len() as u64) as usize;
                for step in 0..k {
                    let i = if twice || step == 0 { first } else { r.below(cur.len() as u64) as usize };
                    let mut q = cur[i].clone();
                    // one re-quote in four REPEATS the present value: the market must still be rebuilt from the latest
                    // quotes (its order goes back to 1, and the kind / variables of the latest quote are what counts)
                    if !r.chance(0.25) {
                        q.v = rand_rate(r);
                    }
                    // one in four changes the KIND of the quote (plain number <-> first-order number on the pair's own
                    // variable, with a zero or a non-unit sensitivity); never in a market holding second-order quotes,
                    // where mixing the two dual kinds is refused by design
                    if r.chance(0.25) && cur.iter().all(|c| c.h.is_empty()) {
                        q = if q.is_dual {
                            Quote::float(&q.l, &q.r, q.v, q.settle)
                        } else {
                            let g = if r.coin() { 0.0 } else { r.uniform(-2.0, 2.0) };
                            Quote::dual(&q.l, &q.r, q.v, vec![format!("fx_{}{}", q.l, q.r)], vec![g], q.settle)
                        };
                    }
                    cur[i] = q.clone();
                    upd.push(q);
                }
                ops.push(Op::Update(upd));
            }
            3 => {
                // reversed pair: must be refused
                let i = r.below(cur.len() as u64) as usize;
                let q = &cur[i];
                ops.push(Op::Update(vec![Quote::float(&q.r, &q.l, rand_rate(r), q.settle)]));
            }
            4 => {
                // a known pair together with a pair never quoted: must be refused as a whole
                let i = r.below(cur.len() as u64) as usize;
                let mut q = cur[i].clone();
                q.v = rand_rate(r);
                let stranger = Quote::float("xau", &cur[i].l, rand_rate(r), cur[i].settle);
                ops.push(Op::Update(if r.coin() { vec![q, stranger] } else { vec![stranger, q] }));
            }
            5 => {
                // a known pair re-quoted for ANOTHER settlement date (or none): with other quotes around the rebuilt market is
                // inconsistent and the update must be refused, leaving nothing behind - what follows (order switches, further
                // updates) must still see the old quotes; on a one-quote market it is accepted and the market moves date
                let i = r.below(cur.len() as u64) as usize;
                let mut q = cur[i].clone();
                q.v = rand_rate(r);
                q.settle = if q.settle == 0 { 20777 } else if r.coin() { 0 } else { q.settle + 3 };
                if cur.len() == 1 {
                    cur[i] = q.clone();
                }
                ops.push(Op::Update(vec![q]));
            }
            _ => ops.push(Op::SetOrder(r.below(3) as i64)),
        }
    }
    ops
}

/// replay TLC-generated configurations (MC_FXRates.CaseSeq) with concrete rates, each followed by 3 random operations
pub fn replay(cases: &str, seed: u64, out: &str) {
    let mut o = Out::create(out);
    let wd = Watchdog::start(out, 60);
    let mut r = Rng::new(seed ^ 0xF09);
    for (i, c) in read_ndjson(cases).iter().enumerate() {
        let qs = c["quotes"].as_array().unwrap();
        let mixed = c["mixed"].as_bool().unwrap();
        let nq = qs.len();
        let quotes: Vec<Quote> = qs
            .iter()
            .enumerate()
            .map(|(k, q)| {
                let l = NAMES[q["l"].as_u64().unwrap() as usize - 1];
                let rr = NAMES[q["r"].as_u64().unwrap() as usize - 1];
                // settlement tags: all None or all the same date, except the last quote of a "mixed" configuration
                let base_tag: i64 = if i % 3 == 0 { 0 } else { 19998 };
                let settle = if mixed && k == nq - 1 && k > 0 { if base_tag == 0 { 19999 } else if i % 2 == 0 { 0 } else { 19999 } } else { base_tag };
                Quote::float(l, rr, rand_rate(&mut r), settle)
            })
            .collect();
        let base: Option<String> = c["base"].as_array().unwrap().first().map(|b| NAMES[b.as_u64().unwrap() as usize - 1].to_string());
        let ops = rand_ops(&mut r, &quotes, 3);
        wd.enter(&format!("gen/{}", i));
        let ev = perform(&quotes, &base, &ops, &mut r);
        wd.leave();
        o.emit(&json!({"h": i, "key": format!("fx/gen/{}", i), "ev": ev}));
    }
    eprintln!("fx replay: {} histories", o.finish());
}

// ------------------------------------------------------------------------------------------ random trees
fn random_tree(r: &mut Rng, n: usize) -> Vec<(usize, usize)> {
    match r.below(4) {
        0 => (1..n).map(|i| (i - 1, i)).collect(),                               // chain
        1 => (1..n).map(|i| (0, i)).collect(),                                   // star
        2 => (1..n).map(|i| (if i % 2 == 1 { i / 2 } else { i - 1 }, i)).collect(), // caterpillar-like
        _ => (1..n).map(|i| (r.below(i as u64) as usize, i)).collect(),          // random recursive tree
    }
}

pub fn record(seed: u64, n: usize, out: &str) {
    let mut o = Out::create(out);
    let wd = Watchdog::start(out, 60);
    let mut r = Rng::new(seed ^ 0xF10);
    for i in 0..n {
        let nc = 2 + r.below(if i % 4 == 0 { 11 } else { 6 }) as usize; // 2..12 currencies
        let mut names: Vec<&str> = NAMES.to_vec();
        r.shuffle(&mut names);
        let names = &names[..nc];
        let mut edges = random_tree(&mut r, nc);
        r.shuffle(&mut edges);
        let settle = if r.coin() { 0 } else { 20000 };
        // one market in four: most quotes are dual numbers over ONE shared ordered variable list (u, v) with unrelated
        // gradients - products along a path then multiply numbers that are already aligned
        let one_list = r.chance(0.25);
        let mut quotes: Vec<Quote> = edges
            .iter()
            .map(|(a, b)| {
                let (a, b) = if r.coin() { (*a, *b) } else { (*b, *a) };
                if r.chance(if one_list { 0.8 } else { 0.2 }) {
                    // a quote that is already a dual number keeps its own variables
                    let vars = if one_list { vec!["u".to_string(), "v".to_string()] }
                               else if r.coin() { vec![format!("q{}", a), "shared".to_string()] } else { vec![format!("own_{}{}", names[a], names[b])] };
                    let g: Vec<f64> = vars.iter().map(|_| r.uniform(0.5, 2.0) * if r.coin() { 1.0 } else { -1.0 }).collect();
                    if r.chance(0.4) {
                        // a quote that is already a SECOND-order number with its own curvature
                        let k = vars.len();
                        let mut h = vec![vec![0.0; k]; k];
                        for i in 0..k { for j in i..k { let x = r.uniform(-1.0, 1.0); h[i][j] = x; h[j][i] = x; } }
                        Quote::dual2(names[a], names[b], rand_rate(&mut r), vars, g, h, settle)
                    } else {
                        Quote::dual(names[a], names[b], rand_rate(&mut r), vars, g, settle)
                    }
                } else {
                    Quote::float(names[a], names[b], rand_rate(&mut r), settle)
                }
            })
            .collect();
        let mut base: Option<String> = if r.coin() { Some(r.pick(names).to_string()) } else { None };
        // degenerate sets (must be rejected)
        match r.below(12) {
            0 if quotes.len() >= 2 => {
                let q = quotes[0].clone();
                quotes.push(Quote::float(&q.l, &q.r, rand_rate(&mut r), settle)); // duplicated pair
            }
            1 if quotes.len() >= 2 => {
                let q = quotes[0].clone();
                quotes.push(Quote::float(&q.r, &q.l, rand_rate(&mut r), settle)); // reversed duplicate
            }
            2 if nc >= 4 => {
                // cycle + isolated pair: replace a leaf edge by an edge closing a cycle, add an unrelated pair
                let a = quotes[0].l.clone();
                let b = quotes[1].r.clone();
                if a != b {
                    let last = quotes.len() - 1;
                    quotes[last] = Quote::float(&a, &b, rand_rate(&mut r), settle);
                }
            }
            3 => base = Some("xag".to_string()), // base not quoted
            4 if quotes.len() >= 2 => quotes[1].settle = if settle == 0 { 20001 } else { 0 }, // mixed settlement
            5 if quotes.len() >= 2 => {
                quotes.pop(); // under-specified
                base = Some(names[nc - 1].to_string());
            }
            _ => {}
        }
        // the same rejection rules hold on the way in from a stored document: save a valid market, give ONE stored
        // quote a different settlement date in the text, and load it - "never yield rates" covers this entry point too
        if i % 4 == 1 && quotes.len() >= 2 {
            if let Outcome::Ok(Ok(f)) = try_new(&quotes, &base) {
                if let Ok(txt) = serde_json::to_string(&f) {
                    let mut doc: Value = serde_json::from_str(&txt).unwrap();
                    let k = 1 + r.below(quotes.len() as u64 - 1) as usize;
                    let stored_order: Vec<(String, String)> = rateslib::verif::fxrates_quotes(&f).iter().map(|(l, rr, _, _)| (l.clone(), rr.clone())).collect();
                    let was_none = doc["fx_rates"][k]["settlement"].is_null();
                    doc["fx_rates"][k]["settlement"] = if was_none { json!("2024-10-02T00:00:00") } else if r.coin() { Value::Null } else { json!("2031-03-05T00:00:00") };
                    let loaded = guard(|| serde_json::from_str::<FXRates>(&doc.to_string()).map_err(|e| e.to_string()));
                    // the quotes as the altered document states them (tag 1 = the altered date: any value different from the others)
                    let qj: Vec<Value> = stored_order.iter().enumerate().map(|(j, (l, rr))| {
                        let q = quotes.iter().find(|q| &q.l == l && &q.r == rr).unwrap();
                        let mut v = q.json();
                        if j == k { v["settle"] = json!(if was_none { 19998 } else { if doc["fx_rates"][k]["settlement"].is_null() { 0 } else { 22343 } }); }
                        v
                    }).collect();
                    let basej = vec![rateslib::verif::fxrates_currencies(&f)[0].clone()];
                    let names = probe_names(&quotes);
                    let evj = match loaded {
                        Outcome::Ok(Ok(g)) => json!({"op":"new","via":"json","quotes":qj,"base":basej,"o":"ok","state":state_json(&g, &names, &mut r)}),
                        Outcome::Ok(Err(_)) => json!({"op":"new","via":"json","quotes":qj,"base":basej,"o":"err"}),
                        Outcome::Panic(_) => json!({"op":"new","via":"json","quotes":qj,"base":basej,"o":"panic"}),
                    };
                    o.emit(&json!({"h": i, "key": format!("fx/rnd/{}/load-altered-settlement", i), "ev": [evj]}));
                }
            }
        }
        // currency codes are case-insensitive on the way in from a stored document too: save a valid market, re-case some
        // occurrences of some codes in the text ("eur" -> "EUR" / "Eur"), load - it must be the same market
        if i % 4 == 3 {
            if let Outcome::Ok(Ok(f)) = try_new(&quotes, &base) {
                if let Ok(txt) = serde_json::to_string(&f) {
                    let mut t2 = String::new();
                    let mut rest = txt.as_str();
                    let codes: Vec<String> = rateslib::verif::fxrates_currencies(&f);
                    // walk the text; at every quoted code decide afresh how to spell it
                    'outer: while !rest.is_empty() {
                        for c in codes.iter() {
                            let pat = format!("\"{}\"", c);
                            if rest.starts_with(&pat) {
                                let spelled = match r.below(3) { 0 => c.clone(), 1 => c.to_uppercase(), _ => { let mut u = c.clone(); u[..1].make_ascii_uppercase(); u } };
                                t2.push_str(&format!("\"{}\"", spelled));
                                rest = &rest[pat.len()..];
                                continue 'outer;
                            }
                        }
                        let ch = rest.chars().next().unwrap();
                        t2.push(ch);
                        rest = &rest[ch.len_utf8()..];
                    }
                    let loaded = guard(|| serde_json::from_str::<FXRates>(&t2).map_err(|e| e.to_string()));
                    let stored_order: Vec<(String, String)> = rateslib::verif::fxrates_quotes(&f).iter().map(|(l, rr, _, _)| (l.clone(), rr.clone())).collect();
                    let qj: Vec<Value> = stored_order.iter().map(|(l, rr)| quotes.iter().find(|q| &q.l == l && &q.r == rr).unwrap().json()).collect();
                    let basej = vec![codes[0].clone()];
                    let names = probe_names(&quotes);
                    let evj = match loaded {
                        // (a market that cannot even be projected - a code it does not know under its own name - is a bad answer, not a tool error)
                        Outcome::Ok(Ok(g)) => match guard(|| state_json(&g, &names, &mut r)) {
                            Outcome::Ok(st) => json!({"op":"new","via":"json-recased","quotes":qj,"base":basej,"o":"ok","state":st}),
                            Outcome::Panic(_) => json!({"op":"new","via":"json-recased","quotes":qj,"base":basej,"o":"panic"}),
                        },
                        Outcome::Ok(Err(_)) => json!({"op":"new","via":"json-recased","quotes":qj,"base":basej,"o":"err"}),
                        Outcome::Panic(_) => json!({"op":"new","via":"json-recased","quotes":qj,"base":basej,"o":"panic"}),
                    };
                    o.emit(&json!({"h": i, "key": format!("fx/rnd/{}/load-recased", i), "ev": [evj]}));
                }
            }
        }
        let nops = r.below(13) as usize;
        let ops = rand_ops(&mut r, &quotes, nops);
        wd.enter(&format!("rnd/{}", i));
        let ev = perform(&quotes, &base, &ops, &mut r);
        wd.leave();
        o.emit(&json!({"h": i, "key": format!("fx/rnd/{}", i), "ev": ev}));
    }
    eprintln!("fx record: {} histories", o.finish());
}

pub fn main(args: &[String]) {
    let out = arg_val(args, "--out").unwrap_or_default();
    match args[0].as_str() {
        "replay" => replay(&args[1], arg_u64(args, "--seed", 1), &out),
        "record" => record(arg_u64(args, "--seed", 1), arg_u64(args, "--n", 100) as usize, &out),
        _ => panic!("unknown fx subcommand"),
    }
}
