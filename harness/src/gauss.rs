//! Linear-solver engine (C13): dsolve / fdsolve on TLC-generated integer systems and on seeded random
//! well-conditioned systems (square 1..8, tall least-squares), entries of all three number kinds tagged with
//! random variable subsets; each system is also solved after a random row permutation.
//! Event: {"key","fn","kind","lsq","A":[[num]],"b":[num],"o","x":[num],"perm":[..],"o2","x2":[num]}
use crate::util::*;
use ndarray::{Array1, Array2};
use rateslib::dual::linalg::{dsolve, fdsolve};
use rateslib::dual::{Dual, Dual2, Number};
use serde_json::{json, Value};

#[derive(Clone)]
struct Ent {
    re: f64,
    vars: Vec<String>,
    d: Vec<f64>,
    h: Vec<Vec<f64>>, // half-Hessian (stored form), symmetric
}
impl Ent {
    fn plain(re: f64) -> Self {
        Ent { re, vars: vec![], d: vec![], h: vec![] }
    }
    fn d1(&self) -> Dual {
        Dual::try_new(self.re, self.vars.clone(), self.d.clone()).unwrap()
    }
    fn d2(&self) -> Dual2 {
        let flat: Vec<f64> = self.h.iter().flatten().cloned().collect();
        Dual2::try_new(self.re, self.vars.clone(), self.d.clone(), flat).unwrap()
    }
}
fn rand_ent(r: &mut Rng, re: f64, names: &[&str], p_tag: f64) -> Ent {
    if !r.chance(p_tag) || names.is_empty() {
        return Ent::plain(re);
    }
    let mut vs: Vec<&str> = names.to_vec();
    r.shuffle(&mut vs);
    let k = 1 + r.below(vs.len().min(3) as u64) as usize;
    let vars: Vec<String> = vs[..k].iter().map(|s| s.to_string()).collect();
    let d: Vec<f64> = (0..k).map(|_| r.uniform(-1.5, 1.5)).collect();
    let mut h = vec![vec![0.0; k]; k];
    for i in 0..k {
        for j in i..k {
            if r.chance(0.5) {
                let x = r.uniform(-0.5, 0.5);
                h[i][j] = x;
                h[j][i] = x;
            }
        }
    }
    Ent { re, vars, d, h }
}

/// `colmajor`: the matrix is handed over as a column-major (Fortran-contiguous) view - the transpose of the array that
/// stores its transpose - which is what `m.t()` or a Fortran-ordered numpy array looks like to the solver
fn solve_kind(fnname: &str, kind: &str, a: &[Vec<Ent>], b: &[Ent], lsq: bool, colmajor: bool) -> (String, Vec<Value>) {
    let (m, n) = (a.len(), a[0].len());
    macro_rules! run {
        ($mk:expr, $js:expr) => {{
            let am = Array2::from_shape_vec((m, n), a.iter().flatten().map($mk).collect()).unwrap();
            let at = Array2::from_shape_vec((n, m), (0..n).flat_map(|j| (0..m).map(move |i| &a[i][j])).map($mk).collect()).unwrap();
            let av = if colmajor { at.t() } else { am.view() };
            let bv = Array1::from_vec(b.iter().map($mk).collect());
            match guard(|| dsolve(&av, &bv.view(), lsq)) {
                Outcome::Ok(x) => ("ok".to_string(), x.iter().map($js).collect()),
                Outcome::Panic(_) => ("panic".to_string(), vec![]),
            }
        }};
    }
    macro_rules! frun {
        ($mk:expr, $js:expr) => {{
            let am = Array2::from_shape_vec((m, n), a.iter().flatten().map(|e| e.re).collect()).unwrap();
            let at = Array2::from_shape_vec((n, m), (0..n).flat_map(|j| (0..m).map(move |i| a[i][j].re)).collect()).unwrap();
            let av = if colmajor { at.t() } else { am.view() };
            let bv = Array1::from_vec(b.iter().map($mk).collect());
            match guard(|| fdsolve(&av, &bv.view(), lsq)) {
                Outcome::Ok(x) => ("ok".to_string(), x.iter().map($js).collect()),
                Outcome::Panic(_) => ("panic".to_string(), vec![]),
            }
        }};
    }
    // the generic container: untagged entries are Number::F64, tagged ones Number::Dual (N1) / Number::Dual2 (N2)
    let n1 = |e: &Ent| if e.vars.is_empty() { Number::F64(e.re) } else { Number::Dual(e.d1()) };
    let n2 = |e: &Ent| if e.vars.is_empty() { Number::F64(e.re) } else { Number::Dual2(e.d2()) };
    // the Python-facing entry points `_dsolve1` / `_dsolve2`: the matrix flattened row by row, as `dual_solve` passes it
    macro_rules! pyrun {
        ($mk:expr, $js:expr, $f:path) => {{
            let flat: Vec<_> = a.iter().flatten().map($mk).collect();
            let bv: Vec<_> = b.iter().map($mk).collect();
            match guard(|| $f(flat, bv, lsq)) {
                Outcome::Ok(Ok(x)) => ("ok".to_string(), x.iter().map($js).collect()),
                Outcome::Ok(Err(_)) => ("err".to_string(), vec![]),
                Outcome::Panic(_) => ("panic".to_string(), vec![]),
            }
        }};
    }
    match (fnname, kind) {
        ("pydsolve", "D1") => pyrun!(|e: &Ent| e.d1(), dual_json, rateslib::verif::linalg_py::dsolve1),
        ("pydsolve", _) => pyrun!(|e: &Ent| e.d2(), dual2_json, rateslib::verif::linalg_py::dsolve2),
        ("dsolve", "N1") => run!(n1, number_json),
        ("dsolve", "N2") => run!(n2, number_json),
        ("dsolve", "F") => run!(|e: &Ent| e.re, |x: &f64| f64_json(*x)),
        ("dsolve", "D1") => run!(|e: &Ent| e.d1(), dual_json),
        ("dsolve", _) => run!(|e: &Ent| e.d2(), dual2_json),
        (_, "F") => frun!(|e: &Ent| e.re, |x: &f64| f64_json(*x)),
        (_, "D1") => frun!(|e: &Ent| e.d1(), dual_json),
        _ => frun!(|e: &Ent| e.d2(), dual2_json),
    }
}
fn ent_json(e: &Ent, kind: &str) -> Value {
    match kind {
        "F" => f64_json(e.re),
        "N1" => if e.vars.is_empty() { f64_json(e.re) } else { dual_json(&e.d1()) },
        "N2" => if e.vars.is_empty() { f64_json(e.re) } else { dual2_json(&e.d2()) },
        "D1" => dual_json(&e.d1()),
        _ => dual2_json(&e.d2()),
    }
}

fn emit(o: &mut Out, key: &str, fnname: &str, kind: &str, a: &[Vec<Ent>], b: &[Ent], lsq: bool, r: &mut Rng) {
    let (oc, x) = solve_kind(fnname, kind, a, b, lsq, false);
    // the same system with its rows permuted
    let mut perm: Vec<usize> = (0..a.len()).collect();
    r.shuffle(&mut perm);
    let a2: Vec<Vec<Ent>> = perm.iter().map(|i| a[*i].clone()).collect();
    let b2: Vec<Ent> = perm.iter().map(|i| b[*i].clone()).collect();
    // (and, every other time, stored column by column: the memory layout of the view is not part of the system either)
    let colmajor = r.coin();
    let (oc2, x2) = solve_kind(fnname, kind, &a2, &b2, lsq, colmajor);
    let akind = if fnname == "fdsolve" { "F" } else { kind };
    let aj: Vec<Value> = a.iter().map(|row| Value::Array(row.iter().map(|e| ent_json(e, akind)).collect())).collect();
    let bj: Vec<Value> = b.iter().map(|e| ent_json(e, kind)).collect();
    o.emit(&json!({"key": key, "fn": fnname, "kind": kind, "lsq": lsq, "A": aj, "b": bj, "o": oc, "x": x,
                   "perm": perm.iter().map(|i| i + 1).collect::<Vec<_>>(), "colmajor2": colmajor, "o2": oc2, "x2": x2}));
}

/// TLC-generated integer systems (MC_Gauss.CaseSeq) through every solver / kind combination
pub fn replay(cases: &str, seed: u64, out: &str) {
    let mut o = Out::create(out);
    let mut r = Rng::new(seed ^ 0xC13);
    let names = ["p", "q", "s"];
    for (ci, c) in read_ndjson(cases).iter().enumerate() {
        let rows = c["A"].as_array().unwrap();
        let combos = [("dsolve", "F"), ("dsolve", "D1"), ("dsolve", "D2"), ("fdsolve", "F"), ("fdsolve", "D1"), ("fdsolve", "D2"), ("dsolve", "N1"), ("dsolve", "N2")];
        // every matrix through the float solvers; tagged kinds on a rotating third of them
        for (k, (f, kind)) in combos.iter().enumerate() {
            if *kind != "F" && (ci + k) % 3 != 0 {
                continue;
            }
            let p_tag = if *kind == "F" { 0.0 } else { 0.6 };
            let a: Vec<Vec<Ent>> = rows.iter().map(|row| row.as_array().unwrap().iter().map(|x| rand_ent(&mut r, x.as_f64().unwrap(), &names, if *f == "fdsolve" { 0.0 } else { p_tag })).collect()).collect();
            let b: Vec<Ent> = c["b"].as_array().unwrap().iter().map(|x| rand_ent(&mut r, x.as_f64().unwrap(), &names, p_tag)).collect();
            emit(&mut o, &format!("gauss/gen/{}/{}-{}", ci, f, kind), f, kind, &a, &b, false, &mut r);
        }
    }
    eprintln!("gauss replay: {} events", o.finish());
}

pub fn record(seed: u64, n: usize, out: &str) {
    let mut o = Out::create(out);
    let mut r = Rng::new(seed ^ 0x13C);
    let names = ["p", "q", "s", "t", "u"];
    for i in 0..n {
        let lsq = i % 5 == 4;
        let nn = if lsq { 2 + r.below(5) as usize } else { 1 + r.below(8) as usize };
        let m = if lsq { nn + 1 + r.below(7) as usize } else { nn };
        let (f, kind) = *r.pick(&[("dsolve", "F"), ("dsolve", "D1"), ("dsolve", "D2"), ("fdsolve", "F"), ("fdsolve", "D1"), ("fdsolve", "D2"), ("dsolve", "N1"), ("dsolve", "N2"),
                                  ("pydsolve", "D1"), ("pydsolve", "D2")]);
        let p_tag = if kind == "F" { 0.0 } else { 0.5 };
        // diagonally perturbed permutation-scrambled matrix: well conditioned, yet pivoting is forced
        let mut sigma: Vec<usize> = (0..nn).collect();
        r.shuffle(&mut sigma);
        let mut a: Vec<Vec<Ent>> = vec![];
        for row in 0..m {
            let mut v = vec![];
            for col in 0..nn {
                let strong = if row < nn { sigma[row] == col } else { false };
                let sparse_zero = !strong && r.chance(0.35);
                let re = if strong { r.uniform(2.0, 4.0) * if r.coin() { 1.0 } else { -1.0 } } else if sparse_zero { 0.0 } else { r.uniform(-0.45, 0.45) };
                v.push(rand_ent(&mut r, re, &names, if f == "fdsolve" { 0.0 } else { p_tag }));
            }
            a.push(v);
        }
        let b: Vec<Ent> = (0..m).map(|_| { let re = r.uniform(-2.0, 2.0); rand_ent(&mut r, re, &names, p_tag) }).collect();
        emit(&mut o, &format!("gauss/rnd/{}/{}-{}{}", i, f, kind, if lsq { "-lsq" } else { "" }), f, kind, &a, &b, lsq, &mut r);
    }
    // tall systems of chosen SHAPES, least squares: single-column systems and every shape up to 12 x 6 whose element count
    // is a perfect square (4x1, 9x1, 8x2, 12x3, 9x4 - where "rows x columns" cannot be told from the count alone), and two others
    for (si, (m, nn)) in [(4usize, 1usize), (9, 1), (8, 2), (12, 3), (9, 4), (3, 1), (5, 2)].iter().enumerate() {
        for (f, kind) in [("pydsolve", "D1"), ("pydsolve", "D2"), ("dsolve", "D1"), ("fdsolve", "D1")] {
            let p_tag = 0.5;
            let mut sigma: Vec<usize> = (0..*nn).collect();
            r.shuffle(&mut sigma);
            let a: Vec<Vec<Ent>> = (0..*m).map(|row| (0..*nn).map(|col| {
                let strong = row < *nn && sigma[row] == col;
                let re = if strong { r.uniform(2.0, 4.0) * if r.coin() { 1.0 } else { -1.0 } } else { r.uniform(-0.45, 0.45) };
                rand_ent(&mut r, re, &names, if f == "fdsolve" { 0.0 } else { p_tag })
            }).collect()).collect();
            let b: Vec<Ent> = (0..*m).map(|_| { let re = r.uniform(-2.0, 2.0); rand_ent(&mut r, re, &names, p_tag) }).collect();
            emit(&mut o, &format!("gauss/shape/{}/{}x{}/{}-{}-lsq", si, m, nn, f, kind), f, kind, &a, &b, true, &mut r);
        }
    }
    eprintln!("gauss record: {} events", o.finish());
}

pub fn main(args: &[String]) {
    let out = arg_val(args, "--out").unwrap_or_default();
    match args[0].as_str() {
        "replay" => replay(&args[1], arg_u64(args, "--seed", 1), &out),
        "record" => record(arg_u64(args, "--seed", 1), arg_u64(args, "--n", 100) as usize, &out),
        "products" => products(arg_u64(args, "--seed", 1), arg_u64(args, "--n", 100) as usize, &out),
        _ => panic!("unknown gauss subcommand"),
    }
}

// ------------------------------------------------------------------------------------------ tensor products
/// dmul11_ / dmul21_ / dmul22_ / douter11_ (generic), fdmul11_ / fdmul21_ / fdmul22_ (float x T), dfmul21_ / dfmul22_
/// (T x float), fouter11_: each call recorded with its operands and result.
pub fn products(seed: u64, n: usize, out: &str) {
    use rateslib::dual::linalg::{dfmul21_, dfmul22_, dmul11_, dmul21_, dmul22_, douter11_, fdmul11_, fdmul21_, fdmul22_, fouter11_};
    let mut o = Out::create(out);
    let mut r = Rng::new(seed ^ 0x11A);
    let names = ["p", "q", "s"];
    for i in 0..n {
        let kind = *r.pick(&["F", "D1", "D2"]);
        let (m, k, nn) = (1 + r.below(3) as usize, 1 + r.below(3) as usize, 1 + r.below(3) as usize);
        let p_tag = if kind == "F" { 0.0 } else { 0.6 };
        let a: Vec<Vec<Ent>> = (0..m).map(|_| (0..k).map(|_| { let re = r.uniform(-2.0, 2.0); rand_ent(&mut r, re, &names, p_tag) }).collect()).collect();
        let b: Vec<Vec<Ent>> = (0..k).map(|_| (0..nn).map(|_| { let re = r.uniform(-2.0, 2.0); rand_ent(&mut r, re, &names, p_tag) }).collect()).collect();
        let aj = |x: &Vec<Vec<Ent>>, kd: &str| -> Value { Value::Array(x.iter().map(|row| Value::Array(row.iter().map(|e| ent_json(e, kd)).collect())).collect()) };
        macro_rules! go {
            ($T:ty, $mk:expr, $js:expr) => {{
                let am = Array2::<$T>::from_shape_vec((m, k), a.iter().flatten().map($mk).collect()).unwrap();
                let bm = Array2::<$T>::from_shape_vec((k, nn), b.iter().flatten().map($mk).collect()).unwrap();
                let af = Array2::<f64>::from_shape_vec((m, k), a.iter().flatten().map(|e| e.re).collect()).unwrap();
                let bf = Array2::<f64>::from_shape_vec((k, nn), b.iter().flatten().map(|e| e.re).collect()).unwrap();
                let mat = |x: &Array2<$T>| -> Value { Value::Array(x.outer_iter().map(|row| Value::Array(row.iter().map($js).collect())).collect()) };
                let vecj = |x: &Array1<$T>| -> Value { Value::Array(x.iter().map($js).collect()) };
                let mut res = vec![];
                res.push(json!({"fn":"dmul22_","l":"T","r":"T","res": mat(&dmul22_(&am.view(), &bm.view()))}));
                res.push(json!({"fn":"fdmul22_","l":"F","r":"T","res": mat(&fdmul22_(&af.view(), &bm.view()))}));
                res.push(json!({"fn":"dfmul22_","l":"T","r":"F","res": mat(&dfmul22_(&am.view(), &bf.view()))}));
                // matrix x first column, first row . first column, outer(first row of A, first row of B)
                let bcol = bm.column(0).to_owned();
                let bcolf = bf.column(0).to_owned();
                res.push(json!({"fn":"dmul21_","l":"T","r":"T","res": vecj(&dmul21_(&am.view(), &bcol.view()))}));
                res.push(json!({"fn":"fdmul21_","l":"F","r":"T","res": vecj(&fdmul21_(&af.view(), &bcol.view()))}));
                res.push(json!({"fn":"dfmul21_","l":"T","r":"F","res": vecj(&dfmul21_(&am.view(), &bcolf.view()))}));
                let arow = am.row(0).to_owned();
                let arowf = af.row(0).to_owned();
                res.push(json!({"fn":"dmul11_","l":"T","r":"T","res": $js(&dmul11_(&arow.view(), &bcol.view()))}));
                res.push(json!({"fn":"fdmul11_","l":"F","r":"T","res": $js(&fdmul11_(&arowf.view(), &bcol.view()))}));
                let brow = bm.row(0).to_owned();
                res.push(json!({"fn":"douter11_","l":"T","r":"T","res": mat(&douter11_(&arow.view(), &brow.view()))}));
                let fo = fouter11_(&arowf.view(), &bf.row(0).to_owned().view());
                res.push(json!({"fn":"fouter11_","l":"F","r":"F","res": Value::Array(fo.outer_iter().map(|row| Value::Array(row.iter().map(|x| f64_json(*x)).collect())).collect())}));
                res
            }};
        }
        let res = guard(|| match kind {
            "F" => go!(f64, |e: &Ent| e.re, |x: &f64| f64_json(*x)),
            "D1" => go!(Dual, |e: &Ent| e.d1(), dual_json),
            _ => go!(Dual2, |e: &Ent| e.d2(), dual2_json),
        });
        let (oc, rj) = match res { Outcome::Ok(v) => ("ok", Value::Array(v)), Outcome::Panic(_) => ("panic", json!([])) };
        o.emit(&json!({"key": format!("linalg/{}/{}", kind, i), "op":"products", "kind": kind, "A": aj(&a, kind), "B": aj(&b, kind), "o": oc, "calls": rj}));
    }
    eprintln!("gauss products: {} events", o.finish());
}
