//! Persistence engine (C16, C20): save -> load round trips of every serialisable type through plain JSON, the
//! tagged from_json entry point and bincode, with random finite bit-pattern doubles; single mutations of valid
//! JSON documents; constructor argument grids. The harness records projections before / after and outcomes.
use crate::cal::bitmap;
use crate::util::*;
use chrono::NaiveDateTime;
use rateslib::calendars::{Cal, CalType, Convention, DateRoll, Modifier, NamedCal, UnionCal};
use rateslib::dual::{ADOrder, Dual, Dual2, Number};
use rateslib::fx::rates::{Ccy, FXPair, FXRate, FXRates};
use rateslib::splines::{PPSpline, PPSplineDual, PPSplineDual2, PPSplineF64};
use rateslib::verif::{self, CurveH, Tagged};
use serde::de::DeserializeOwned;
use serde::Serialize;
use serde_json::{json, Value};

// ------------------------------------------------------------------------------------------ random contents
/// a random FINITE double: uniformly random bit pattern (all 17 significant digits, extreme exponents, subnormals,
/// negative zero), NaN / infinities excluded
pub fn rand_bits(r: &mut Rng) -> f64 {
    loop {
        let b = match r.below(10) {
            0 => 0x8000_0000_0000_0000u64,                // -0.0
            1 => r.next() & 0x000F_FFFF_FFFF_FFFF,        // subnormal
            _ => r.next(),
        };
        let x = f64::from_bits(b);
        if x.is_finite() {
            return x;
        }
    }
}
/// positive, full 17-digit mantissa, moderate exponent
pub fn rand_pos(r: &mut Rng) -> f64 {
    let m = 1.0 + r.unit();
    m * 2f64.powi(r.range(-8, 8) as i32)
}
// (names are arbitrary text: quotes, backslashes, control characters, accented and CJK letters, and characters beyond the
//  basic multilingual plane - which a JSON writer that escapes to ASCII must write as a surrogate PAIR)
const AWKWARD: [&str; 14] = ["x", "y z", "\"q\"", "back\\slash", "", "fx_eurusd", "v0", "tab\tname", "\u{3c3}", "\u{5229}\u{7387}", "\u{1d465}", "rate\u{1f4c8}", "e\u{301}", "\u{10ffff}z"];
fn rand_vars(r: &mut Rng, n: usize) -> Vec<String> {
    let mut v: Vec<String> = vec![];
    while v.len() < n {
        let s = if r.chance(0.4) { AWKWARD[r.below(14) as usize].to_string() } else { format!("v{}", r.below(40)) };
        if !v.contains(&s) {
            v.push(s);
        }
    }
    v
}
fn rand_dual(r: &mut Rng) -> Dual {
    let n = r.below(5) as usize;
    // (now and then a sensitivity that is exactly zero, or -0.0: the variable is still listed and must come back)
    Dual::try_new(rand_bits(r), rand_vars(r, n), (0..n).map(|_| match r.below(8) { 0 => 0.0, 1 => -0.0, _ => rand_bits(r) }).collect()).unwrap()
}
fn rand_dual2(r: &mut Rng) -> Dual2 {
    let n = r.below(4) as usize;
    Dual2::try_new(rand_bits(r), rand_vars(r, n), (0..n).map(|_| match r.below(8) { 0 => 0.0, 1 => -0.0, _ => rand_bits(r) }).collect(), (0..n * n).map(|_| rand_bits(r)).collect()).unwrap()
}
fn rand_cal(r: &mut Rng) -> Cal {
    let mask: Vec<u8> = (0..7u8).filter(|_| r.chance(0.3)).collect();
    // (a holiday is a date-TIME in the data model: now and then one carries a time of day)
    let hols: Vec<NaiveDateTime> = (0..r.below(30)).map(|_| dn(r.range(0, 84000)) + chrono::Duration::seconds(if r.chance(0.1) { r.range(1, 86399) } else { 0 })).collect();
    Cal::new(hols, mask)
}

// ------------------------------------------------------------------------------------------ projections
fn p_dual(d: &Dual) -> Value {
    let mut v = dual_json(d);
    v.as_object_mut().unwrap().remove("arc");
    v
}
fn p_dual2(d: &Dual2) -> Value {
    let mut v = dual2_json(d);
    v.as_object_mut().unwrap().remove("arc");
    v
}
fn p_num(n: &Number) -> Value {
    match n {
        Number::F64(f) => f64_json(*f),
        Number::Dual(d) => p_dual(d),
        Number::Dual2(d) => p_dual2(d),
    }
}
fn p_cal(c: &Cal) -> Value {
    let mut h: Vec<i64> = verif::cal_holidays(c).iter().map(|d| d.and_utc().timestamp()).collect();
    h.sort();
    // seconds split into day and second-of-day so that every integer fits 32 bits
    let hs: Vec<Value> = h.iter().map(|s| json!([s.div_euclid(86400), s.rem_euclid(86400)])).collect();
    json!({"hols": hs, "mask": verif::cal_week_mask(c)})
}
fn p_union(u: &UnionCal) -> Value {
    let (c, s) = verif::union_cal_parts(u);
    json!({"cals": c.iter().map(p_cal).collect::<Vec<_>>(), "has_settle": s.is_some(),
           "settle": s.as_ref().map(|v| v.iter().map(p_cal).collect::<Vec<_>>()).unwrap_or_default()})
}
const PW: (i64, i64) = (19500, 19899);
fn p_named(n: &NamedCal) -> Value {
    json!({"name": verif::named_cal_name(n), "union": p_union(verif::named_cal_union(n)),
           "bus": bitmap(PW.0, PW.1, |d| n.is_bus_day(d)), "stl": bitmap(PW.0, PW.1, |d| n.is_settlement(d))})
}
fn p_fx(f: &FXRates) -> Value {
    let ccys = verif::fxrates_currencies(f);
    let cc: Vec<Ccy> = ccys.iter().map(|c| Ccy::try_new(c).unwrap()).collect();
    let mut re = vec![];
    for a in cc.iter() {
        for b in cc.iter() {
            re.push(fj(number_re(&f.rate(a, b).unwrap())));
        }
    }
    let quotes: Vec<Value> = verif::fxrates_quotes(f).iter().map(|(l, r_, n, s)| json!({"l": l, "r": r_, "v": p_num(n), "settle": s.map(|d| nd(&d)).unwrap_or(0),
        "settle_s": s.map(|d| { use chrono::Timelike; d.time().num_seconds_from_midnight() as i64 }).unwrap_or(-1),
        "settle_ns": s.map(|d| { use chrono::Timelike; d.time().nanosecond() as i64 }).unwrap_or(-1)})).collect();
    json!({"ccys": ccys, "order": verif::fxrates_ad(f), "quotes": quotes, "re": re})
}
fn p_curve(c: &CurveH) -> Value {
    let nodes: Vec<Value> = c.nodes().iter().map(|(d, v)| json!({"d": nd(d), "v": p_num(v)})).collect();
    let ad = match c.ad() { ADOrder::Zero => 0, ADOrder::One => 1, ADOrder::Two => 2 };
    let probes: Vec<i64> = { let ds: Vec<i64> = c.nodes().iter().map(|(d, _)| nd(d)).collect(); vec![ds[0], ds[0] + 1, (ds[0] + ds[ds.len() - 1]) / 2, ds[ds.len() - 1] + 10] };
    let look: Vec<Value> = probes.iter().map(|x| match guard(|| c.value(&dn(*x))) { Outcome::Ok(v) => p_num(&v), Outcome::Panic(_) => json!({"k":"dead"}) }).collect();
    json!({"nodes": nodes, "ad": ad, "id": c.id(), "interp": c.interpolation(), "ib": c.index_base().map(|x| json!([fj(x)])).unwrap_or(json!([])), "look": look,
           "convention": format!("{:?}", c.convention()), "modifier": format!("{:?}", c.modifier())})
}
fn p_spline<T: Clone>(s: &PPSpline<T>, pj: impl Fn(&T) -> Value) -> Value {
    json!({"k": s.k(), "n": s.n(), "t": fvec(s.t()), "has_c": s.c().is_some(),
           "c": s.c().as_ref().map(|c| c.iter().map(|x| pj(x)).collect::<Vec<_>>()).unwrap_or_default()})
}

// ------------------------------------------------------------------------------------------ round trips
fn via<T: Serialize + DeserializeOwned>(obj: &T, fmt: &str) -> (String, Option<T>) {
    // "json": what JSON::to_json / from_json do; "bincode": what __getstate__ / __setstate__ do
    match fmt {
        "json" => match guard(|| serde_json::to_string(obj)) {
            Outcome::Ok(Ok(s)) => match guard(|| serde_json::from_str::<T>(&s)) {
                Outcome::Ok(Ok(v)) => ("ok".into(), Some(v)),
                Outcome::Ok(Err(_)) => ("load_err".into(), None),
                Outcome::Panic(_) => ("load_panic".into(), None),
            },
            Outcome::Ok(Err(_)) => ("save_err".into(), None),
            Outcome::Panic(_) => ("save_panic".into(), None),
        },
        _ => match guard(|| bincode::serialize(obj)) {
            Outcome::Ok(Ok(b)) => match guard(|| bincode::deserialize::<T>(&b)) {
                Outcome::Ok(Ok(v)) => ("ok".into(), Some(v)),
                Outcome::Ok(Err(_)) => ("load_err".into(), None),
                Outcome::Panic(_) => ("load_panic".into(), None),
            },
            Outcome::Ok(Err(_)) => ("save_err".into(), None),
            Outcome::Panic(_) => ("save_panic".into(), None),
        },
    }
}
fn via_tagged(t: Tagged) -> (String, Option<Tagged>) {
    match guard(|| t.to_json()) {
        Outcome::Ok(Ok(s)) => match guard(|| Tagged::from_json(&s)) {
            Outcome::Ok(Ok(v)) => ("ok".into(), Some(v)),
            Outcome::Ok(Err(_)) => ("load_err".into(), None),
            Outcome::Panic(_) => ("load_panic".into(), None),
        },
        Outcome::Ok(Err(_)) => ("save_err".into(), None),
        Outcome::Panic(_) => ("save_panic".into(), None),
    }
}

fn ev(key: String, ty: &str, fmt: &str, o: String, before: Value, after: Option<Value>, eq: Option<bool>) -> Value {
    json!({"key": key, "op": "rt", "type": ty, "fmt": fmt, "o": o, "before": before, "has_after": after.is_some(),
           "after": after.unwrap_or(json!({})), "eq": eq.unwrap_or(false)})
}

macro_rules! rt_type {
    ($o:expr, $key:expr, $ty:expr, $obj:expr, $proj:expr, $tag:path, $untag:expr) => {{
        let obj = $obj;
        for fmt in ["json", "bincode"] {
            let (oc, back) = via(&obj, fmt);
            let eq = back.as_ref().map(|b| guard(|| *b == obj)).map(|g| matches!(g, Outcome::Ok(true)));
            $o.emit(&ev(format!("{}/{}/{}", $key, $ty, fmt), $ty, fmt, oc, $proj(&obj), back.as_ref().map(|b| $proj(b)), eq));
        }
        let (oc, back) = via_tagged($tag(obj.clone()));
        let back = back.and_then($untag);
        let eq = back.as_ref().map(|b| guard(|| *b == obj)).map(|g| matches!(g, Outcome::Ok(true)));
        $o.emit(&ev(format!("{}/{}/tagged", $key, $ty), $ty, "tagged", oc, $proj(&obj), back.as_ref().map(|b| $proj(b)), eq));
    }};
}

fn rand_fx(r: &mut Rng) -> FXRates {
    // (a currency code is any three BYTES once lower-cased: "a\u{a3}" - a, pound sign - is one)
    let names = ["usd", "eur", "gbp", "jpy", "cad", "aud", "nok", "a\u{a3}"];
    let nc = 2 + r.below(5) as usize;
    let mut idx: Vec<usize> = (0..names.len()).collect();
    r.shuffle(&mut idx);
    let cs: Vec<&str> = idx[..nc].iter().map(|i| names[*i]).collect();
    // a settlement is a date-TIME: midnight, a time of day, or a time with a fraction of a second
    let settle = match r.below(4) {
        0 => None,
        1 => Some(dn(20000)),
        2 => Some(dn(r.range(10000, 30000)) + chrono::Duration::seconds(r.range(1, 86399))),
        _ => Some(dn(r.range(10000, 30000)) + chrono::Duration::seconds(r.range(0, 86399)) + chrono::Duration::nanoseconds(r.range(1, 999_999_999))),
    };
    let quotes: Vec<FXRate> = (1..nc).map(|i| {
        let j = r.below(i as u64) as usize;
        let (a, b) = if r.coin() { (cs[i], cs[j]) } else { (cs[j], cs[i]) };
        let v = rand_pos(r);
        let num = if r.chance(0.25) { Number::Dual(Dual::try_new(v, vec![format!("own{}", i)], vec![rand_pos(r)]).unwrap()) } else { Number::F64(v) };
        FXRate::try_new(a, b, num, settle).unwrap()
    }).collect();
    let base = if r.coin() { Some(Ccy::try_new(*r.pick(&cs)).unwrap()) } else { None };
    let mut f = FXRates::try_new(quotes.clone(), base).unwrap();
    // half of the markets have LIVED before they are stored: one or two of their quotes were updated (what is stored must be
    // the market as it now is, not as it was made)
    if r.coin() {
        for _ in 0..(1 + r.below(2)) {
            let q = r.pick(&quotes).clone();
            let (l, rr, _, st) = rateslib::verif::rates_py::quote_view(&q).map(|(p, n, a, s)| (p[..3].to_string(), p[3..].to_string(), (n, a), s)).unwrap();
            // one re-quote in three names ANOTHER settlement date: with other quotes around it is refused, and a refused
            // update must leave nothing behind in what is stored (a one-quote market accepts it and moves date)
            let st = if r.chance(0.33) { match st { Some(d) => if r.coin() { None } else { Some(d + chrono::Duration::days(3)) }, None => Some(dn(20777)) } } else { st };
            let _ = f.update(vec![FXRate::try_new(&l, &rr, Number::F64(rand_pos(r)), st).unwrap()]);
        }
    }
    let _ = f.set_ad_order(match r.below(3) { 0 => ADOrder::Zero, 1 => ADOrder::One, _ => ADOrder::Two });
    f
}
fn rand_curve(r: &mut Rng, i: usize) -> CurveH {
    let rules = ["linear", "log_linear", "linear_zero_rate", "flat_forward", "flat_backward", "null"];
    let n = 2 + r.below(6) as usize;
    let mut d = r.range(5000, 20000);
    let nodes: Vec<(NaiveDateTime, Number)> = (0..n).map(|k| {
        d += r.range(1, 800);
        let v = rand_pos(r);
        (dn(d), if r.chance(0.2) { Number::Dual(Dual::try_new(v, vec![format!("n{}", k)], vec![rand_bits(r)]).unwrap()) } else { Number::F64(v) })
    }).collect();
    let cal: CalType = match r.below(3) {
        0 => CalType::NamedCal(NamedCal::try_new(*r.pick(&["tgt", "nyc,ldn|fed", "all"])).unwrap()),
        1 => CalType::Cal(rand_cal(r)),
        _ => CalType::UnionCal(UnionCal::new(vec![rand_cal(r)], if r.coin() { Some(vec![rand_cal(r)]) } else { None })),
    };
    let ad = match r.below(3) { 0 => ADOrder::Zero, 1 => ADOrder::One, _ => ADOrder::Two };
    // every day-count convention and every modifier (they are stored fields of a curve)
    let conv = rateslib::verif::calendar_py::convention_new((r.below(11)) as u8).unwrap();
    let modi = rateslib::verif::calendar_py::modifier_new((r.below(5)) as u8).unwrap();
    CurveH::new(nodes, rules[i % 6], ad, ["crv", "usd_ois", "\u{1d465}crv", "c \"1\""][i % 4], conv, modi, cal, if r.coin() { Some(rand_pos(r)) } else { None }).unwrap()
}
fn rand_knots(r: &mut Rng, k: usize) -> Vec<f64> {
    let mut t: Vec<f64> = (0..(2 * k + r.below(5) as usize)).map(|_| rand_bits(r)).collect();
    t.sort_by(|a, b| a.partial_cmp(b).unwrap());
    t
}

/// What `pickle.loads(pickle.dumps(x))` does with a pyo3 class: `cls.__new__(cls, *x.__getnewargs__())`, then
/// `__setstate__(x.__getstate__())` on that object - through the `#[pymethods]` items themselves (cfg-guarded hooks).
fn pickle_ev<T>(o: &mut Out, key: &str, ty: &str, obj: &T, proj: impl Fn(&T) -> Value, renew: impl Fn(&T) -> Result<T, String>,
                state: impl Fn(&T, &mut T) -> Result<(), String>, eqf: impl Fn(&T, &T) -> bool) {
    let res = guard(|| -> Result<T, String> {
        let mut fresh = renew(obj).map_err(|e| format!("new:{}", e))?;
        state(obj, &mut fresh).map_err(|e| format!("state:{}", e))?;
        Ok(fresh)
    });
    let (oc, back) = match res {
        Outcome::Ok(Ok(v)) => ("ok".to_string(), Some(v)),
        Outcome::Ok(Err(e)) => (if e.starts_with("new:") { "new_err".to_string() } else { "load_err".to_string() }, None),
        Outcome::Panic(_) => ("load_panic".to_string(), None),
    };
    let eq = back.as_ref().map(|b| guard(|| eqf(b, obj))).map(|g| matches!(g, Outcome::Ok(true)));
    o.emit(&ev(format!("{}/{}/pickle", key, ty), ty, "pickle", oc, proj(obj), back.as_ref().map(|b| proj(b)), eq));
}

pub fn roundtrip(seed: u64, n: usize, out: &str) {
    use rateslib::verif::{calendar_py as cpy, dual_py as dpy, rates_py as rpy};
    let mut o = Out::create(out);
    let mut r = Rng::new(seed ^ 0xC16);
    // the small pickled types: every value of the enumerations, currencies, quotes
    for i in 0..11u8 {
        if let Ok(c) = cpy::convention_new(i) {
            let res = guard(|| cpy::convention_pickle(&c));
            let (oc, same) = match res { Outcome::Ok(Ok((_, back))) => ("ok", back == c), Outcome::Ok(Err(_)) => ("load_err", false), Outcome::Panic(_) => ("load_panic", false) };
            o.emit(&ev(format!("rt/enum/Convention/{}", i), "Convention", "pickle", oc.into(), json!({"i": i}), Some(json!({"i": i})), Some(same)));
        }
    }
    for i in 0..3u8 {
        if let Ok(a) = dpy::adorder_new(i) {
            let res = guard(|| dpy::adorder_pickle(&a));
            let (oc, same) = match res { Outcome::Ok(Ok((_, back))) => ("ok", back == a), Outcome::Ok(Err(_)) => ("load_err", false), Outcome::Panic(_) => ("load_panic", false) };
            o.emit(&ev(format!("rt/enum/ADOrder/{}", i), "ADOrder", "pickle", oc.into(), json!({"i": i}), Some(json!({"i": i})), Some(same)));
        }
    }
    for i in 0..5u8 {
        if let Ok(m) = cpy::modifier_new(i) {
            let res = guard(|| cpy::modifier_pickle(&m));
            let (oc, same) = match res { Outcome::Ok(Ok((_, back))) => ("ok", back == m), Outcome::Ok(Err(_)) => ("load_err", false), Outcome::Panic(_) => ("load_panic", false) };
            o.emit(&ev(format!("rt/enum/Modifier/{}", i), "Modifier", "pickle", oc.into(), json!({"i": i, "s": cpy::modifier_str(m)}), Some(json!({"i": i, "s": cpy::modifier_str(m)})), Some(same)));
        }
    }
    for i in 0..11u8 {
        let c = cpy::convention_new(i).unwrap();
        for fmt in ["json", "bincode"] {
            let (oc, back) = via(&c, fmt);
            let eq = back.as_ref().map(|b| *b == c);
            o.emit(&ev(format!("rt/enum/Convention/{}/{}", i, fmt), "Convention", fmt, oc, json!({"name": format!("{:?}", c)}), back.as_ref().map(|b| json!({"name": format!("{:?}", b)})), eq));
        }
    }
    for i in 0..5u8 {
        let m = cpy::modifier_new(i).unwrap();
        for fmt in ["json", "bincode"] {
            let (oc, back) = via(&m, fmt);
            let eq = back.as_ref().map(|b| *b == m);
            o.emit(&ev(format!("rt/enum/Modifier/{}/{}", i, fmt), "Modifier", fmt, oc, json!({"name": format!("{:?}", m)}), back.as_ref().map(|b| json!({"name": format!("{:?}", b)})), eq));
        }
    }
    for nm in ["usd", "eur", "XAU", "Nok"] {
        let c = rpy::ccy_new(nm).unwrap();
        let res = guard(|| rpy::ccy_pickle(&c));
        let (oc, after, same) = match res { Outcome::Ok(Ok((name, back, e))) => ("ok", Some(json!({"name": verif::ccy_name(&back), "getter": name})), e), Outcome::Ok(Err(_)) => ("load_err", None, false), Outcome::Panic(_) => ("load_panic", None, false) };
        o.emit(&ev(format!("rt/ccy/{}", nm), "Ccy", "pickle", oc.into(), json!({"name": nm.to_lowercase(), "getter": nm.to_lowercase()}), after, Some(same)));
    }
    for i in 0..n {
        let key = format!("rt/{}", i);
        // two numbers over the same names in opposite order, loaded one after the other (a loader that keeps anything
        // from the previous load must not carry the ORDER over)
        {
            let n = 2 + r.below(3) as usize;
            let vs = rand_vars(&mut r, n);
            let rv: Vec<String> = vs.iter().rev().cloned().collect();
            let a = Dual::try_new(rand_bits(&mut r), vs.clone(), (0..n).map(|_| rand_bits(&mut r)).collect()).unwrap();
            let b = Dual::try_new(rand_bits(&mut r), rv.clone(), (0..n).map(|_| rand_bits(&mut r)).collect()).unwrap();
            let a2 = Dual2::try_new(rand_bits(&mut r), vs.clone(), (0..n).map(|_| rand_bits(&mut r)).collect(), (0..n * n).map(|_| rand_bits(&mut r)).collect()).unwrap();
            let b2 = Dual2::try_new(rand_bits(&mut r), rv, (0..n).map(|_| rand_bits(&mut r)).collect(), (0..n * n).map(|_| rand_bits(&mut r)).collect()).unwrap();
            let pk = format!("{}/perm", key);
            rt_type!(o, pk, "Dual", a.clone(), p_dual, Tagged::Dual, |t| if let Tagged::Dual(x) = t { Some(x) } else { None });
            rt_type!(o, pk, "Dual", b.clone(), p_dual, Tagged::Dual, |t| if let Tagged::Dual(x) = t { Some(x) } else { None });
            rt_type!(o, pk, "Dual2", a2.clone(), p_dual2, Tagged::Dual2, |t| if let Tagged::Dual2(x) = t { Some(x) } else { None });
            rt_type!(o, pk, "Dual2", b2.clone(), p_dual2, Tagged::Dual2, |t| if let Tagged::Dual2(x) = t { Some(x) } else { None });
            // ... and inside ONE object: spline coefficients over permuted lists
            let sp = verif::ppspline_dual_wrap(PPSpline::new(1, vec![0.0, 1.0, 2.0], Some(vec![a, b])));
            rt_type!(o, pk, "PPSplineDual", sp, |s: &PPSplineDual| p_spline(verif::ppspline_dual_inner(s), p_dual), Tagged::PPSplineDual, |t| if let Tagged::PPSplineDual(x) = t { Some(x) } else { None });
            let sp2 = verif::ppspline_dual2_wrap(PPSpline::new(1, vec![0.0, 1.0, 2.0], Some(vec![a2, b2])));
            rt_type!(o, pk, "PPSplineDual2", sp2, |s: &PPSplineDual2| p_spline(verif::ppspline_dual2_inner(s), p_dual2), Tagged::PPSplineDual2, |t| if let Tagged::PPSplineDual2(x) = t { Some(x) } else { None });
        }
        // the text each Python class hands out from `to_json()` (the #[pymethods] item), read back through the tagged
        // entry point: it must come back as the SAME kind of object, equal to the original
        {
            macro_rules! pyjson {
                ($ty:expr, $obj:expr, $proj:expr, $tojson:expr, $untag:expr) => {{
                    let obj = $obj;
                    let (oc, back) = match guard(|| $tojson(&obj)) {
                        Outcome::Ok(Ok(txt)) => match guard(|| Tagged::from_json(&txt)) {
                            Outcome::Ok(Ok(t)) => match $untag(t) { Some(x) => ("ok".to_string(), Some(x)), None => ("load_wrong_type".to_string(), None) },
                            Outcome::Ok(Err(_)) => ("load_err".to_string(), None),
                            Outcome::Panic(_) => ("load_panic".to_string(), None),
                        },
                        Outcome::Ok(Err(_)) => ("save_err".to_string(), None),
                        Outcome::Panic(_) => ("save_panic".to_string(), None),
                    };
                    let eq = back.as_ref().map(|b| guard(|| *b == obj)).map(|g| matches!(g, Outcome::Ok(true)));
                    o.emit(&ev(format!("{}/{}/pyjson", key, $ty), $ty, "pyjson", oc, $proj(&obj), back.as_ref().map(|b| $proj(b)), eq));
                }};
            }
            pyjson!("Dual", rand_dual(&mut r), p_dual, dpy::dual_to_json, |t| if let Tagged::Dual(x) = t { Some(x) } else { None });
            pyjson!("Dual2", rand_dual2(&mut r), p_dual2, dpy::dual2_to_json, |t| if let Tagged::Dual2(x) = t { Some(x) } else { None });
            pyjson!("FXRates", rand_fx(&mut r), p_fx, rpy::to_json, |t| if let Tagged::FXRates(x) = t { Some(x) } else { None });
            {
                // the three spline classes (with and without coefficients)
                use rateslib::verif::spline_py as spy;
                let k = 1 + r.below(3) as usize;
                let mut t = vec![0.0; k]; t.extend([rand_pos(&mut r), 3.0 + rand_pos(&mut r)].iter().map(|x| x.abs().min(1e6))); t.sort_by(|a, b| a.partial_cmp(b).unwrap()); let last = t[t.len() - 1]; t.extend(vec![last + 1.0; k]);
                let n = t.len() - k;
                let some = r.coin();
                pyjson!("PPSplineF64", verif::ppspline_f64_wrap(PPSpline::new(k, t.clone(), if some { Some((0..n).map(|_| rand_bits(&mut r)).collect()) } else { None })),
                        |s: &PPSplineF64| p_spline(verif::ppspline_f64_inner(s), |x| fj(*x)), |s: &PPSplineF64| spy::f64_misc(s).map(|x| x.1), |t| if let Tagged::PPSplineF64(x) = t { Some(x) } else { None });
                pyjson!("PPSplineDual", verif::ppspline_dual_wrap(PPSpline::new(k, t.clone(), if some { Some((0..n).map(|_| rand_dual(&mut r)).collect()) } else { None })),
                        |s: &PPSplineDual| p_spline(verif::ppspline_dual_inner(s), p_dual), |s: &PPSplineDual| spy::dual_misc(s).map(|x| x.1), |t| if let Tagged::PPSplineDual(x) = t { Some(x) } else { None });
                pyjson!("PPSplineDual2", verif::ppspline_dual2_wrap(PPSpline::new(k, t.clone(), if some { Some((0..n).map(|_| rand_dual2(&mut r)).collect()) } else { None })),
                        |s: &PPSplineDual2| p_spline(verif::ppspline_dual2_inner(s), p_dual2), |s: &PPSplineDual2| spy::dual2_misc(s).map(|x| x.1), |t| if let Tagged::PPSplineDual2(x) = t { Some(x) } else { None });
            }
            if i % 3 == 0 {
                pyjson!("Cal", rand_cal(&mut r), p_cal, cpy::cal_json, |t| if let Tagged::Cal(x) = t { Some(x) } else { None });
                pyjson!("UnionCal", UnionCal::new(vec![rand_cal(&mut r)], Some(vec![rand_cal(&mut r)])), p_union, cpy::union_json, |t| if let Tagged::UnionCal(x) = t { Some(x) } else { None });
                pyjson!("NamedCal", NamedCal::try_new(*r.pick(&["tgt", "nyc,ldn|fed", "bus|all"])).unwrap(), p_named, cpy::named_json, |t| if let Tagged::NamedCal(x) = t { Some(x) } else { None });
            }
        }
        // pickle protocol of every class that has one
        {
            let d = rand_dual(&mut r);
            pickle_ev(&mut o, &key, "Dual", &d, p_dual, |x| dpy::dual_newargs(x).and_then(|(a, b, c)| dpy::dual_new(a, b, c)), |x, on| dpy::dual_pickle(x, on), |a, b| a == b);
            let d2 = rand_dual2(&mut r);
            pickle_ev(&mut o, &key, "Dual2", &d2, p_dual2, |x| dpy::dual2_newargs(x).and_then(|(a, b, c, e)| dpy::dual2_new(a, b, c, e)), |x, on| dpy::dual2_pickle(x, on), |a, b| a == b);
            let f = rand_fx(&mut r);
            pickle_ev(&mut o, &key, "FXRates", &f, p_fx, rpy::renew, |x, on| rpy::state(x, on), |a, b| a == b);
            // a quote on its own (settlement with a time of day and a fraction of a second)
            let q = FXRate::try_new("eur", "usd", if r.coin() { Number::F64(rand_pos(&mut r)) } else { Number::Dual(rand_dual(&mut r)) },
                                    match r.below(3) { 0 => None, 1 => Some(dn(r.range(10000, 30000))), _ => Some(dn(r.range(10000, 30000)) + chrono::Duration::nanoseconds(r.range(1, 86_399_999_999_999))) }).unwrap();
            let pq = |q: &FXRate| { let (p, n_, a, st) = rpy::quote_view(q).unwrap(); use chrono::Timelike;
                json!({"pair": p, "v": p_num(&n_), "ad": a, "settle": st.map(|d| nd(&d)).unwrap_or(0), "settle_s": st.map(|d| d.time().num_seconds_from_midnight() as i64).unwrap_or(-1), "settle_ns": st.map(|d| d.time().nanosecond() as i64).unwrap_or(-1)}) };
            let res = guard(|| rpy::quote_pickle(&q));
            let (oc, after, same) = match res { Outcome::Ok(Ok((_, back, e))) => ("ok", Some(pq(&back)), e), Outcome::Ok(Err(_)) => ("load_err", None, false), Outcome::Panic(_) => ("load_panic", None, false) };
            o.emit(&ev(format!("{}/FXRate/pickle", key), "FXRate", "pickle", oc.into(), pq(&q), after, Some(same)));
            let c = rand_curve(&mut r, i);
            pickle_ev(&mut o, &key, "Curve", &c, p_curve, |x| x.renew(), |x, on| x.py_state_onto(on), |a, b| a.equals(b));
            if i % 3 == 0 {
                let cal = rand_cal(&mut r);
                pickle_ev(&mut o, &key, "Cal", &cal, p_cal, cpy::cal_renew, |x, on| cpy::cal_state(x, on), |a, b| a == b);
                let u = UnionCal::new(vec![rand_cal(&mut r)], if r.coin() { None } else { Some(vec![rand_cal(&mut r)]) });
                pickle_ev(&mut o, &key, "UnionCal", &u, p_union, cpy::union_renew, |x, on| cpy::union_state(x, on), |a, b| a == b);
                let nc = NamedCal::try_new(*r.pick(&["tgt", "nyc,ldn|fed", "bus|all"])).unwrap();
                pickle_ev(&mut o, &key, "NamedCal", &nc, p_named, cpy::named_renew, |x, on| cpy::named_state(x, on), |a, b| a == b);
            }
            if i == 0 {
                // calendars of realistic SIZE: the built-in holiday tables (thousands of entries, pickled states of 40 - 120 kB),
                // alone and as members / settlement calendars of a union
                for nm in ["tgt", "nyc", "tyo"] {
                    let big = rateslib::calendars::get_calendar_by_name(nm).unwrap();
                    pickle_ev(&mut o, &format!("{}/big/{}", key, nm), "Cal", &big, p_cal, cpy::cal_renew, |x, on| cpy::cal_state(x, on), |a, b| a == b);
                    let other = rateslib::calendars::get_calendar_by_name("fed").unwrap();
                    let u = UnionCal::new(vec![big], Some(vec![other]));
                    pickle_ev(&mut o, &format!("{}/big/{}", key, nm), "UnionCal", &u, p_union, cpy::union_renew, |x, on| cpy::union_state(x, on), |a, b| a == b);
                }
            }
        }
        rt_type!(o, key, "Dual", rand_dual(&mut r), p_dual, Tagged::Dual, |t| if let Tagged::Dual(x) = t { Some(x) } else { None });
        rt_type!(o, key, "Dual2", rand_dual2(&mut r), p_dual2, Tagged::Dual2, |t| if let Tagged::Dual2(x) = t { Some(x) } else { None });
        if i % 3 == 0 {
            rt_type!(o, key, "Cal", rand_cal(&mut r), p_cal, Tagged::Cal, |t| if let Tagged::Cal(x) = t { Some(x) } else { None });
            // UnionCal / NamedCal equality is behavioural over 1970-2200 (slow): fewer of them
            let u = UnionCal::new((0..(1 + r.below(2))).map(|_| rand_cal(&mut r)).collect(), match r.below(3) { 0 => None, 1 => Some(vec![]), _ => Some(vec![rand_cal(&mut r)]) });
            rt_type!(o, key, "UnionCal", u, p_union, Tagged::UnionCal, |t| if let Tagged::UnionCal(x) = t { Some(x) } else { None });
            let nm = *r.pick(&["tgt", "LDN", "nyc,ldn|fed", "bus|all", "Tgt,Stk", "fed"]);
            rt_type!(o, key, "NamedCal", NamedCal::try_new(nm).unwrap(), p_named, Tagged::NamedCal, |t| if let Tagged::NamedCal(x) = t { Some(x) } else { None });
        }
        rt_type!(o, key, "FXRates", rand_fx(&mut r), p_fx, Tagged::FXRates, |t| if let Tagged::FXRates(x) = t { Some(x) } else { None });
        if i % 3 == 1 {
            // the calendar container (its own JSON impl; no tagged form) and the generic CurveDF through the JSON trait
            let ct: CalType = match r.below(3) { 0 => CalType::Cal(rand_cal(&mut r)), 1 => CalType::NamedCal(NamedCal::try_new("tgt,ldn|fed").unwrap()),
                                                _ => CalType::UnionCal(UnionCal::new(vec![rand_cal(&mut r)], Some(vec![rand_cal(&mut r)]))) };
            let pct = |c: &CalType| match c { CalType::Cal(x) => json!({"Cal": p_cal(x)}), CalType::UnionCal(x) => json!({"UnionCal": p_union(x)}), CalType::NamedCal(x) => json!({"NamedCal": p_named(x)}) };
            for fmt in ["json", "bincode"] {
                let (oc, back) = via(&ct, fmt);
                let eq = back.as_ref().map(|b| guard(|| *b == ct)).map(|g| matches!(g, Outcome::Ok(true)));
                o.emit(&ev(format!("{}/CalType/{}", key, fmt), "CalType", fmt, oc, pct(&ct), back.as_ref().map(|b| pct(b)), eq));
            }
            use rateslib::curves::{CurveDF, LinearInterpolator, LogLinearInterpolator, Nodes};
            use indexmap::IndexMap;
            let mut d0 = r.range(5000, 20000);
            let nodes = Nodes::F64(IndexMap::from_iter((0..(2 + r.below(5))).map(|_| { d0 += r.range(1, 900); (dn(d0), rand_pos(&mut r)) })));
            let pdf = |c: &Value| c.clone();
            macro_rules! df {
                ($interp:expr, $T:ty) => {{
                    let c = CurveDF::try_new(nodes.clone(), $interp, "crv", cpy::convention_new(r.below(11) as u8).unwrap(), cpy::modifier_new(r.below(5) as u8).unwrap(), Some(rand_pos(&mut r)), NamedCal::try_new("tgt").unwrap()).unwrap();
                    let proj = |c: &CurveDF<$T, NamedCal>| { let ns: Vec<Value> = verif::curvedf_nodes(c).iter().map(|(d, v)| json!({"d": nd(d), "v": p_num(v)})).collect(); json!({"nodes": ns, "convention": format!("{:?}", verif::curvedf_convention(c)), "modifier": format!("{:?}", verif::curvedf_modifier(c))}) };
                    for fmt in ["json", "bincode"] {
                        let (oc, back) = via(&c, fmt);
                        let eq = back.as_ref().map(|b| guard(|| *b == c)).map(|g| matches!(g, Outcome::Ok(true)));
                        o.emit(&ev(format!("{}/CurveDF/{}", key, fmt), "CurveDF", fmt, oc, proj(&c), back.as_ref().map(|b| proj(b)), eq));
                    }
                }};
            }
            if r.coin() { df!(LinearInterpolator::new(), LinearInterpolator) } else { df!(LogLinearInterpolator::new(), LogLinearInterpolator) }
            let _ = pdf;
        }
        // curves: json (untagged), tagged, and the pickling state
        {
            let c = rand_curve(&mut r, i);
            let before = p_curve(&c);
            for fmt in ["json", "tagged", "bincode"] {
                let back: (String, Option<CurveH>) = match fmt {
                    "json" => match guard(|| c.to_json()) { Outcome::Ok(Ok(s)) => match guard(|| CurveH::from_json(&s)) { Outcome::Ok(Ok(v)) => ("ok".into(), Some(v)), Outcome::Ok(Err(_)) => ("load_err".into(), None), Outcome::Panic(_) => ("load_panic".into(), None) }, Outcome::Ok(Err(_)) => ("save_err".into(), None), Outcome::Panic(_) => ("save_panic".into(), None) },
                    "tagged" => match guard(|| c.to_json_tagged()) { Outcome::Ok(Ok(s)) => match guard(|| Tagged::from_json(&s)) { Outcome::Ok(Ok(Tagged::Curve(v))) => ("ok".into(), Some(v)), Outcome::Ok(Ok(_)) => ("load_wrong_type".into(), None), Outcome::Ok(Err(_)) => ("load_err".into(), None), Outcome::Panic(_) => ("load_panic".into(), None) }, Outcome::Ok(Err(_)) => ("save_err".into(), None), Outcome::Panic(_) => ("save_panic".into(), None) },
                    _ => match guard(|| c.getstate()) { Outcome::Ok(b) => match guard(|| CurveH::setstate(&b)) { Outcome::Ok(Ok(v)) => ("ok".into(), Some(v)), Outcome::Ok(Err(_)) => ("load_err".into(), None), Outcome::Panic(_) => ("load_panic".into(), None) }, Outcome::Panic(_) => ("save_panic".into(), None) },
                };
                let eq = back.1.as_ref().map(|b| guard(|| b.equals(&c))).map(|g| matches!(g, Outcome::Ok(true)));
                o.emit(&ev(format!("{}/Curve/{}", key, fmt), "Curve", fmt, back.0, before.clone(), back.1.as_ref().map(p_curve), eq));
            }
        }
        // splines of the three types, solved or not
        {
            let k = 1 + r.below(4) as usize;
            let t = rand_knots(&mut r, k);
            let nn = t.len() - k;
            let solved = r.coin();
            // (coefficients handed to the constructor need not number n: it accepts any, and what it accepts must come back)
            let nc_ = if r.chance(0.25) { r.below(nn as u64 + 2) as usize } else { nn };
            let cf: Option<Vec<f64>> = if solved { Some((0..nc_).map(|_| rand_bits(&mut r)).collect()) } else { None };
            rt_type!(o, key, "PPSplineF64", verif::ppspline_f64_wrap(PPSpline::new(k, t.clone(), cf)), |s: &PPSplineF64| p_spline(verif::ppspline_f64_inner(s), |x| fj(*x)),
                     Tagged::PPSplineF64, |t| if let Tagged::PPSplineF64(x) = t { Some(x) } else { None });
            let cd: Option<Vec<Dual>> = if solved { Some((0..nn).map(|_| rand_dual(&mut r)).collect()) } else { None };
            rt_type!(o, key, "PPSplineDual", verif::ppspline_dual_wrap(PPSpline::new(k, t.clone(), cd)), |s: &PPSplineDual| p_spline(verif::ppspline_dual_inner(s), p_dual),
                     Tagged::PPSplineDual, |t| if let Tagged::PPSplineDual(x) = t { Some(x) } else { None });
            let cd2: Option<Vec<Dual2>> = if solved { Some((0..nn).map(|_| rand_dual2(&mut r)).collect()) } else { None };
            rt_type!(o, key, "PPSplineDual2", verif::ppspline_dual2_wrap(PPSpline::new(k, t.clone(), cd2)), |s: &PPSplineDual2| p_spline(verif::ppspline_dual2_inner(s), p_dual2),
                     Tagged::PPSplineDual2, |t| if let Tagged::PPSplineDual2(x) = t { Some(x) } else { None });
        }
    }
    eprintln!("persist roundtrip: {} events", o.finish());
}

// ------------------------------------------------------------------------------------------ document mutations (C20)
fn paths(v: &Value, cur: Vec<String>, out: &mut Vec<Vec<String>>) {
    out.push(cur.clone());
    match v {
        Value::Object(m) => {
            for (k, x) in m {
                let mut c = cur.clone();
                c.push(k.clone());
                paths(x, c, out);
            }
        }
        Value::Array(a) => {
            // descend into the first and the last element only (the others are alike)
            for i in [0usize, a.len().saturating_sub(1)] {
                if i < a.len() && (i == 0 || a.len() > 1) {
                    let mut c = cur.clone();
                    c.push(i.to_string());
                    paths(&a[i], c, out);
                }
            }
        }
        _ => {}
    }
}
fn get_mut<'a>(v: &'a mut Value, path: &[String]) -> Option<&'a mut Value> {
    let mut cur = v;
    for p in path {
        cur = match cur {
            Value::Object(m) => m.get_mut(p)?,
            Value::Array(a) => a.get_mut(p.parse::<usize>().ok()?)?,
            _ => return None,
        };
    }
    Some(cur)
}
/// every single mutation of a document: (how, mutated text)
fn mutations(doc: &Value) -> Vec<(Vec<String>, String, String)> {
    let mut ps = vec![];
    paths(doc, vec![], &mut ps);
    let mut out = vec![];
    let repl: Vec<(&str, Value)> = vec![("null", Value::Null), ("true", json!(true)), ("int", json!(7)), ("negint", json!(-3)), ("float", json!(2.5)), ("str", json!("zzz")),
                                        ("emptystr", json!("")), ("arr", json!([])), ("arr1", json!([1.5])), ("obj", json!({})), ("bigint", json!(4000000000u64))];
    for p in ps.iter() {
        if p.is_empty() {
            continue;
        }
        // delete
        {
            let mut d = doc.clone();
            let (last, parent) = p.split_last().unwrap();
            if let Some(par) = get_mut(&mut d, parent) {
                match par {
                    Value::Object(m) => { m.remove(last); }
                    Value::Array(a) => { if let Ok(i) = last.parse::<usize>() { if i < a.len() { a.remove(i); } } }
                    _ => {}
                }
            }
            out.push((p.clone(), "delete".to_string(), d.to_string()));
        }
        // duplicate (arrays: repeat the element; objects: repeat the key in the TEXT)
        {
            let mut d = doc.clone();
            let (last, parent) = p.split_last().unwrap();
            let mut text: Option<String> = None;
            if let Some(par) = get_mut(&mut d, parent) {
                match par {
                    Value::Array(a) => { if let Ok(i) = last.parse::<usize>() { if i < a.len() { let x = a[i].clone(); a.insert(i, x); } } }
                    Value::Object(m) => {
                        if let Some(x) = m.get(last) {
                            // textual duplication of a key: {"k":v,...} -> {"k":v,"k":v,...}
                            let frag = format!("{}:{}", Value::String(last.clone()), x);
                            let whole = doc.to_string();
                            if let Some(pos) = whole.find(&frag) {
                                let mut s = whole.clone();
                                s.insert_str(pos, &format!("{},", frag));
                                text = Some(s);
                            }
                        }
                    }
                    _ => {}
                }
            }
            out.push((p.clone(), "duplicate".to_string(), text.unwrap_or_else(|| d.to_string())));
        }
        // an array header `dim` re-factorised over the same number of elements (the element count still matches `data`)
        if p.last().map(|l| l == "dim").unwrap_or(false) {
            let cur = get_mut(&mut doc.clone(), p).cloned();
            let len: Option<u64> = cur.as_ref().and_then(|c| c.as_array()).map(|a| a.iter().filter_map(|x| x.as_u64()).product());
            if let (Some(cur), Some(len)) = (cur, len) {
                let rank = cur.as_array().map(|a| a.len()).unwrap_or(0);
                let mut alts: Vec<Value> = vec![];
                if rank == 2 {
                    for r in 1..=len.max(1) { if len % r == 0 { alts.push(json!([r, len / r])); } }
                    alts.push(json!([len]));
                } else if rank == 1 {
                    alts.push(json!([1, len]));
                    alts.push(json!([len, 1]));
                }
                for a in alts {
                    if a == cur { continue; }
                    let mut d = doc.clone();
                    if let Some(x) = get_mut(&mut d, p) { *x = a.clone(); }
                    out.push((p.clone(), format!("reshape:{}", a), d.to_string()));
                }
            }
        }
        // an array emptied CONSISTENTLY: header `dim` all zeros together with `data` = []
        if p.last().map(|l| l == "dim").unwrap_or(false) {
            let (_, parent) = p.split_last().unwrap();
            let mut d = doc.clone();
            let mut done = false;
            if let Some(Value::Object(m)) = get_mut(&mut d, parent) {
                if let (Some(Value::Array(dim)), true) = (m.get("dim").cloned(), m.contains_key("data")) {
                    if dim.iter().any(|x| x.as_u64().unwrap_or(0) > 0) {
                        m.insert("dim".to_string(), Value::Array(dim.iter().map(|_| json!(0)).collect()));
                        m.insert("data".to_string(), json!([]));
                        done = true;
                    }
                }
            }
            if done {
                out.push((p.clone(), "emptied".to_string(), d.to_string()));
            }
        }
        // retype / alter
        for (name, val) in repl.iter() {
            let mut d = doc.clone();
            if let Some(x) = get_mut(&mut d, p) {
                if x == val {
                    continue;
                }
                *x = val.clone();
            }
            out.push((p.clone(), format!("set:{}", name), d.to_string()));
        }
        // lengthen arrays / alter strings
        {
            let mut d = doc.clone();
            let mut changed = false;
            if let Some(x) = get_mut(&mut d, p) {
                match x {
                    Value::Array(a) => { if let Some(l) = a.last().cloned() { a.push(l); a.push(json!(1.25)); changed = true; } }
                    Value::String(s) => { s.push_str("x"); changed = true; }
                    Value::Number(nm) => { if let Some(i) = nm.as_i64() { *x = json!(i + 1); changed = true; } }
                    _ => {}
                }
            }
            if changed {
                out.push((p.clone(), "grow".to_string(), d.to_string()));
            }
        }
    }
    out
}

/// shape projection of a loaded object, for ShapeInv
fn shape_dual(d: &Dual) -> Value { use rateslib::dual::{Gradient1, Vars}; json!({"t":"Dual","nvars": d.vars().len(), "nd": d.dual().len()}) }
fn shape_dual2(d: &Dual2) -> Value { use rateslib::dual::{Gradient1, Gradient2, Vars}; json!({"t":"Dual2","nvars": d.vars().len(), "nd": d.dual().len(), "r2": d.dual2().shape()[0], "c2": d.dual2().shape()[1]}) }
fn shape_num(n: &Number) -> Value { match n { Number::F64(_) => json!({"t":"F"}), Number::Dual(d) => shape_dual(d), Number::Dual2(d) => shape_dual2(d) } }
fn shape_spline<T>(s: &PPSpline<T>, f: impl Fn(&T) -> Value) -> Value {
    json!({"t":"PPSpline","k": s.k(), "n": s.n(), "nt": s.t().len(), "has_c": s.c().is_some(), "nc": s.c().as_ref().map(|c| c.len()).unwrap_or(0),
           "c": s.c().as_ref().map(|c| c.iter().map(|x| f(x)).collect::<Vec<_>>()).unwrap_or_default(),
           "sorted": s.t().windows(2).all(|w| w[0] <= w[1])})
}
fn shape_fx(f: &FXRates) -> Value {
    let ccys = verif::fxrates_currencies(f);
    let q = verif::fxrates_quotes(f);
    let st: Vec<i64> = q.iter().map(|(_, _, _, s)| s.map(|d| d.and_utc().timestamp() / 60).unwrap_or(-1)).collect();
    json!({"t":"FXRates","nccy": ccys.len(), "nq": q.len(), "ccylens": ccys.iter().map(|c| c.len()).collect::<Vec<_>>(), "settles": st,
           "quotes": q.iter().map(|(_, _, n, _)| shape_num(n)).collect::<Vec<_>>()})
}
fn shape_tagged(t: &Tagged) -> Value {
    match t {
        Tagged::Dual(d) => shape_dual(d),
        Tagged::Dual2(d) => shape_dual2(d),
        Tagged::Cal(_) => json!({"t":"Cal"}),
        Tagged::UnionCal(_) => json!({"t":"UnionCal"}),
        Tagged::NamedCal(n) => json!({"t":"NamedCal","name": verif::named_cal_name(n), "ncals": verif::union_cal_parts(verif::named_cal_union(n)).0.len()}),
        Tagged::FXRates(f) => shape_fx(f),
        Tagged::Curve(c) => json!({"t":"Curve","nnodes": c.nodes().len(), "nodes": c.nodes().iter().map(|(_, v)| shape_num(v)).collect::<Vec<_>>()}),
        Tagged::PPSplineF64(s) => shape_spline(verif::ppspline_f64_inner(s), |_| json!({"t":"F"})),
        Tagged::PPSplineDual(s) => shape_spline(verif::ppspline_dual_inner(s), shape_dual),
        Tagged::PPSplineDual2(s) => shape_spline(verif::ppspline_dual2_inner(s), shape_dual2),
    }
}

pub fn mutate(seed: u64, out: &str) {
    mutate_n(seed, 0, out)
}
/// `double` > 0: additionally that many seeded DOUBLE mutations per document type (a second single mutation applied
/// to an already mutated document)
pub fn mutate_n(seed: u64, double: usize, out: &str) {
    let mut o = Out::create(out);
    let wd = Watchdog::start(out, 120);
    let mut r = Rng::new(seed ^ 0xC20);
    // one valid document per type, through the tagged entry point (which covers every type)
    let d1 = Dual::try_new(1.5, vec!["x".into(), "y".into()], vec![2.0, -1.0]).unwrap();
    let d2 = Dual2::try_new(1.5, vec!["x".into(), "y".into()], vec![2.0, -1.0], vec![0.5, 0.25, 0.25, 1.0]).unwrap();
    let cal = Cal::new(vec![dn(19000), dn(19001)], vec![5, 6]);
    let ucal = UnionCal::new(vec![cal.clone()], Some(vec![cal.clone()]));
    let ncal = NamedCal::try_new("tgt,ldn|fed").unwrap();
    let fx = FXRates::try_new(vec![FXRate::try_new("eur", "usd", Number::F64(1.1), None).unwrap(), FXRate::try_new("usd", "jpy", Number::Dual(Dual::new(110.0, vec!["q".into()])), None).unwrap()], Some(Ccy::try_new("usd").unwrap())).unwrap();
    // ... and a market whose quotes all carry the same settlement date (so that one of them can be altered)
    let fxd = FXRates::try_new(vec![FXRate::try_new("eur", "usd", Number::F64(1.1), Some(dn(20000))).unwrap(), FXRate::try_new("usd", "jpy", Number::F64(110.0), Some(dn(20000))).unwrap(),
                                    FXRate::try_new("gbp", "usd", Number::F64(1.3), Some(dn(20000))).unwrap()], None).unwrap();
    let curve = rand_curve(&mut r, 1);
    let sf = verif::ppspline_f64_wrap(PPSpline::new(3, vec![0., 0., 0., 1., 2., 2., 2.], Some(vec![1., 2., 3., 4.])));
    let sd = verif::ppspline_dual_wrap(PPSpline::new(2, vec![0., 0., 1., 1.], Some(vec![d1.clone(), d1.clone()])));
    let sd2 = verif::ppspline_dual2_wrap(PPSpline::new(2, vec![0., 0., 1., 1.], Some(vec![d2.clone(), d2.clone()])));
    let docs: Vec<(&str, Tagged)> = vec![("Dual", Tagged::Dual(d1)), ("Dual2", Tagged::Dual2(d2)), ("Cal", Tagged::Cal(cal)), ("UnionCal", Tagged::UnionCal(ucal)),
        ("NamedCal", Tagged::NamedCal(ncal)), ("FXRates", Tagged::FXRates(fx)), ("FXRates", Tagged::FXRates(fxd)), ("Curve", Tagged::Curve(curve)), ("PPSplineF64", Tagged::PPSplineF64(sf)),
        ("PPSplineDual", Tagged::PPSplineDual(sd)), ("PPSplineDual2", Tagged::PPSplineDual2(sd2))];
    for (ty, t) in docs {
        let text = t.to_json().expect("valid document");
        let doc: Value = serde_json::from_str(&text).unwrap();
        // the unmutated document must load
        let base = guard(|| Tagged::from_json(&text));
        o.emit(&json!({"key": format!("mut/{}/identity", ty), "op":"mut", "type": ty, "path": [], "how": "identity",
                       "o": match &base { Outcome::Ok(Ok(_)) => "ok", Outcome::Ok(Err(_)) => "err", Outcome::Panic(_) => "panic" },
                       "shape": match &base { Outcome::Ok(Ok(v)) => shape_tagged(v), _ => json!({"t":"none"}) }, "usable": true}));
        for (path, how, mtext) in mutations(&doc) {
            let key = format!("mut/{}/{}/{}", ty, path.join("."), how);
            wd.enter(&key);
            let res = guard(|| Tagged::from_json(&mtext));
            // a loaded object must also be USABLE: exercise it lightly (evaluation / arithmetic); a panic here means a broken object was let in
            let (oc, shape, usable) = match &res {
                Outcome::Ok(Ok(v)) => {
                    let u = guard(|| match v {
                        Tagged::Dual(d) => { let _ = d + d; let _ = d * d; true }
                        Tagged::Dual2(d) => { let _ = d + d; let _ = d * d; true }
                        Tagged::PPSplineF64(s) => { let sp = verif::ppspline_f64_inner(s); if sp.c().as_ref().map(|c| c.len() == *sp.n()).unwrap_or(false) { let _ = sp.ppdnev_single(&sp.t()[0], 0); } true }
                        Tagged::PPSplineDual(s) => { let sp = verif::ppspline_dual_inner(s); if sp.c().as_ref().map(|c| c.len() == *sp.n()).unwrap_or(false) { let _ = sp.ppdnev_single(&sp.t()[0], 0); } true }
                        Tagged::PPSplineDual2(s) => { let sp = verif::ppspline_dual2_inner(s); if sp.c().as_ref().map(|c| c.len() == *sp.n()).unwrap_or(false) { let _ = sp.ppdnev_single(&sp.t()[0], 0); } true }
                        Tagged::FXRates(f) => { let c = verif::fxrates_currencies(f); let a = Ccy::try_new(&c[0]); a.is_ok() }
                        Tagged::Curve(c) => { let _ = c.nodes(); true }
                        _ => true,
                    });
                    ("ok", shape_tagged(v), matches!(u, Outcome::Ok(true)))
                }
                Outcome::Ok(Err(_)) => ("err", json!({"t":"none"}), true),
                Outcome::Panic(_) => ("panic", json!({"t":"none"}), true),
            };
            wd.leave();
            o.emit(&json!({"key": key, "op":"mut", "type": ty, "path": path, "how": how, "o": oc, "shape": shape, "usable": usable}));
        }
        // double mutations: mutate an already mutated (still parseable) document once more
        let singles = mutations(&doc);
        let mut made = 0;
        let mut tries = 0;
        while made < double && tries < 20 * double {
            tries += 1;
            let (p1, h1, t1) = &singles[r.below(singles.len() as u64) as usize];
            let d1: Value = match serde_json::from_str(t1) { Ok(v) => v, Err(_) => continue };
            let seconds = mutations(&d1);
            if seconds.is_empty() { continue; }
            let (p2, h2, t2) = &seconds[r.below(seconds.len() as u64) as usize];
            let key = format!("mut2/{}/{}/{}+{}/{}", ty, p1.join("."), h1, p2.join("."), h2);
            wd.enter(&key);
            let res = guard(|| Tagged::from_json(t2));
            let (oc, shape) = match &res { Outcome::Ok(Ok(v)) => ("ok", shape_tagged(v)), Outcome::Ok(Err(_)) => ("err", json!({"t":"none"})), Outcome::Panic(_) => ("panic", json!({"t":"none"})) };
            wd.leave();
            o.emit(&json!({"key": key, "op":"mut", "type": ty, "path": p2, "how": format!("{}+{}", h1, h2), "o": oc, "shape": shape, "usable": true}));
            made += 1;
        }
    }
    eprintln!("persist mutate: {} events", o.finish());
}

// ------------------------------------------------------------------------------------------ constructor grids (C20)
pub fn ctors(out: &str) {
    let mut o = Out::create(out);
    let names = |n: usize| -> Vec<String> { (0..n).map(|i| format!("v{}", i)).collect() };
    // Dual / Dual2 : lengths 0..3 x 0..3 x {0,1,2,4,9}; also duplicated names
    for dupl in [false, true] {
        for nv in 0..4usize {
            let mut vars = names(nv);
            if dupl && nv >= 2 { vars[1] = vars[0].clone(); }
            let distinct = { let mut v = vars.clone(); v.dedup(); v.sort(); v.dedup(); v.len() };
            for nd in 0..4usize {
                let res = guard(|| Dual::try_new(1.0, vars.clone(), vec![0.5; nd]));
                o.emit(&json!({"key": format!("ctor/Dual/{}{}/{}", nv, if dupl {"d"} else {""}, nd), "op":"ctor", "fn":"Dual::try_new", "nvars": distinct, "nd": nd, "n2": 0,
                               "o": match &res { Outcome::Ok(Ok(_)) => "ok", Outcome::Ok(Err(_)) => "err", Outcome::Panic(_) => "panic" },
                               "shape": match &res { Outcome::Ok(Ok(d)) => shape_dual(d), _ => json!({"t":"none"}) }}));
                for n2 in [0usize, 1, 2, 4, 9] {
                    let res = guard(|| Dual2::try_new(1.0, vars.clone(), vec![0.5; nd], vec![0.25; n2]));
                    o.emit(&json!({"key": format!("ctor/Dual2/{}{}/{}/{}", nv, if dupl {"d"} else {""}, nd, n2), "op":"ctor", "fn":"Dual2::try_new", "nvars": distinct, "nd": nd, "n2": n2,
                                   "o": match &res { Outcome::Ok(Ok(_)) => "ok", Outcome::Ok(Err(_)) => "err", Outcome::Panic(_) => "panic" },
                                   "shape": match &res { Outcome::Ok(Ok(d)) => shape_dual2(d), _ => json!({"t":"none"}) }}));
                }
            }
        }
    }
    // Ccy : ASCII strings of length 0..5 ; FXPair equal / distinct
    // (a code is stored lower-cased; for some characters lower-casing changes the byte length: KELVIN SIGN is 3 bytes and
    //  lower-cases to the 1-byte "k", LATIN CAPITAL I WITH DOT ABOVE is 2 bytes and lower-cases to 3)
    for s in ["", "u", "us", "usd", "USD", "UsD", "usdx", "dollar", "u d", "123", "eu\u{e9}", "\u{212A}", "\u{0130}x", "x\u{0130}", "\u{20AC}", "u\u{0130}"] {
        let res = guard(|| Ccy::try_new(s));
        o.emit(&json!({"key": format!("ctor/Ccy/{}", s.escape_unicode()), "op":"ctor", "fn":"Ccy::try_new", "arg": s.escape_unicode().to_string(), "nbytes": s.to_lowercase().len(),
                       "stored_nbytes": match &res { Outcome::Ok(Ok(c)) => verif::ccy_name(c).len() as i64, _ => -1 },
                       "o": match &res { Outcome::Ok(Ok(_)) => "ok", Outcome::Ok(Err(_)) => "err", Outcome::Panic(_) => "panic" },
                       "name": match &res { Outcome::Ok(Ok(c)) => verif::ccy_name(c), _ => String::new() }}));
    }
    for (a, b) in [("usd", "eur"), ("usd", "usd"), ("USD", "usd"), ("us", "eur"), ("usd", "euro")] {
        let res = guard(|| FXPair::try_new(a, b));
        o.emit(&json!({"key": format!("ctor/FXPair/{}{}", a, b), "op":"ctor", "fn":"FXPair::try_new", "a": a, "b": b, "la": a.len(), "lb": b.len(), "same": a.to_lowercase() == b.to_lowercase(),
                       "o": match &res { Outcome::Ok(Ok(_)) => "ok", Outcome::Ok(Err(_)) => "err", Outcome::Panic(_) => "panic" }}));
    }
    // the ASSERTING constructors `Dual::clone_from` / `Dual2::clone_from` (a plain value, not a Result: a wrong shape is
    // refused by aborting): every (names, gradient length, rows, columns) combination up to 3, including mis-shaped
    // second-order arrays with the RIGHT number of entries (1 x 4 for two names)
    for nv in 0..=3usize {
        let names: Vec<String> = (0..nv).map(|i| format!("x{}", i)).collect();
        let donor = Dual::new(1.0, names.clone());
        let donor2 = Dual2::new(1.0, names.clone());
        for nd in 0..=3usize {
            let res = guard(|| Dual::clone_from(&donor, 2.0, ndarray::Array1::from_vec(vec![0.5; nd])));
            o.emit(&json!({"key": format!("ctor/Dual::clone_from/{}/{}", nv, nd), "op":"ctor", "fn":"Dual::clone_from", "nvars": nv, "nd": nd,
                           "o": match &res { Outcome::Ok(_) => "ok", Outcome::Panic(_) => "panic" }}));
            for (rows, cols) in [(0usize, 0usize), (1, 1), (2, 2), (3, 3), (1, 4), (4, 1), (1, 9), (9, 1), (2, 3), (3, 2), (1, 2), (2, 1)] {
                let res = guard(|| Dual2::clone_from(&donor2, 2.0, ndarray::Array1::from_vec(vec![0.5; nd]), ndarray::Array2::from_elem((rows, cols), 0.25)));
                o.emit(&json!({"key": format!("ctor/Dual2::clone_from/{}/{}/{}x{}", nv, nd, rows, cols), "op":"ctor", "fn":"Dual2::clone_from", "nvars": nv, "nd": nd, "rows": rows, "cols": cols,
                               "o": match &res { Outcome::Ok(_) => "ok", Outcome::Panic(_) => "panic" }}));
            }
        }
    }
    // the from-constructors `Dual::try_new_from` / `Dual2::try_new_from` (what Python's `vars_from` calls): the other number's
    // list, the same list, a permutation, a subset, new names - with gradients of every length 0..3: an error or a value, never an abort
    {
        let other1 = Dual::new(1.0, vec!["x0".to_string(), "x1".to_string()]);
        let other2 = Dual2::new(1.0, vec!["x0".to_string(), "x1".to_string()]);
        for (vi, vars) in [vec!["x0", "x1"], vec!["x1", "x0"], vec!["x0"], vec!["x1", "z"], vec![], vec!["x0", "x0"]].iter().enumerate() {
            let vs: Vec<String> = vars.iter().map(|x| x.to_string()).collect();
            let distinct = { let mut d = vs.clone(); d.sort(); d.dedup(); d.len() };
            for nd in 0..=3usize {
                let res = guard(|| Dual::try_new_from(&other1, 2.0, vs.clone(), vec![0.5; nd]).map(|_| ()).map_err(|_| ()));
                o.emit(&json!({"key": format!("ctor/Dual::try_new_from/{}/{}", vi, nd), "op":"ctor", "fn":"Dual::try_new", "nvars": distinct, "nd": nd, "n2": 0,
                               "o": match &res { Outcome::Ok(Ok(_)) => "ok", Outcome::Ok(Err(_)) => "err", Outcome::Panic(_) => "panic" }}));
                for n2 in [0usize, distinct * distinct, 1, 3] {
                    let res = guard(|| Dual2::try_new_from(&other2, 2.0, vs.clone(), vec![0.5; nd], vec![0.25; n2]).map(|_| ()).map_err(|_| ()));
                    o.emit(&json!({"key": format!("ctor/Dual2::try_new_from/{}/{}/{}", vi, nd, n2), "op":"ctor", "fn":"Dual2::try_new", "nvars": distinct, "nd": nd, "n2": n2,
                                   "o": match &res { Outcome::Ok(Ok(_)) => "ok", Outcome::Ok(Err(_)) => "err", Outcome::Panic(_) => "panic" }}));
                }
            }
        }
    }
    // `PPSpline::new` asserts a non-decreasing knot sequence: a decrease at ANY position (the last pair included) is refused
    for (pi, t) in [vec![0.0, 0.0, 0.0, 1.0, 2.0, 3.0, 3.0, 3.0], vec![0.0, 0.0, 0.0, 1.0, 2.0, 3.0, 3.0, 2.5], vec![0.0, 0.0, 0.0, 2.0, 1.0, 3.0, 3.0, 3.0],
                    vec![0.5, 0.0, 0.0, 1.0, 2.0, 3.0, 3.0, 3.0], vec![0.0, 0.0, 0.0, 1.0, 2.0, 3.0, 2.0, 3.0], vec![0.0, 1.0], vec![1.0, 0.0]].iter().enumerate() {
        let sorted = t.windows(2).all(|w| w[1] >= w[0]);
        let k = if t.len() > 3 { 3 } else { 1 };
        let res = guard(|| PPSpline::<f64>::new(k, t.clone(), None));
        o.emit(&json!({"key": format!("ctor/PPSpline::new/{}", pi), "op":"ctor", "fn":"PPSpline::new", "sorted": sorted, "o": match &res { Outcome::Ok(_) => "ok", Outcome::Panic(_) => "panic" }}));
        let res = guard(|| rateslib::verif::spline_py::f64_new(k, t.clone(), None));
        o.emit(&json!({"key": format!("ctor/PPSplineF64.__new__/{}", pi), "op":"ctor", "fn":"PPSpline::new", "sorted": sorted, "o": match &res { Outcome::Ok(_) => "ok", Outcome::Panic(_) => "panic" }}));
    }
    // the quote constructor builds the pair itself: the same grid through `FXRate::try_new` and through the Python-facing `FXRate(...)`
    for (a, b) in [("usd", "eur"), ("usd", "usd"), ("USD", "usd"), ("us", "eur"), ("usd", "euro"), ("eur", "EUR"), ("Gbp", "gBP")] {
        for via in ["FXRate::try_new", "FXRate.__new__"] {
            let res = guard(|| if via == "FXRate::try_new" { FXRate::try_new(a, b, Number::F64(1.5), None).map(|_| ()).map_err(|_| ()) }
                               else { rateslib::verif::rates_py::quote_new(a, b, Number::F64(1.5), None).map(|_| ()).map_err(|_| ()) });
            o.emit(&json!({"key": format!("ctor/{}/{}{}", via, a, b), "op":"ctor", "fn": via, "a": a, "b": b, "la": a.len(), "lb": b.len(), "same": a.to_lowercase() == b.to_lowercase(),
                           "o": match &res { Outcome::Ok(Ok(_)) => "ok", Outcome::Ok(Err(_)) => "err", Outcome::Panic(_) => "panic" }}));
        }
    }
    // csolve : site / value count grid x allow_lsq, plus singular site sets
    for k in [2usize, 4] {
        let t: Vec<f64> = { let mut v = vec![0.0; k]; v.extend([1.0, 2.0]); v.extend(vec![3.0; k]); v };
        let n = t.len() - k;
        for ntau in [0usize, 1, n - 1, n, n + 1, n + 3] {
            for ny in [ntau, ntau + 1] {
                for lsq in [false, true] {
                    for singular in [false, true] {
                        let tau: Vec<f64> = if singular { vec![0.0; ntau] } else { (0..ntau).map(|i| 3.0 * i as f64 / (ntau.max(2) - 1) as f64).collect() };
                        let y = vec![1.0; ny];
                        let res = guard(|| { let mut sp: PPSpline<f64> = PPSpline::new(k, t.clone(), None); let r_ = sp.csolve(&tau, &y, 0, 0, lsq).map_err(|e| e.to_string()); (sp, r_) });
                        let (oc, shape) = match &res {
                            Outcome::Ok((sp, Ok(()))) => ("ok", shape_spline(sp, |_| json!({"t":"F"}))),
                            Outcome::Ok((_, Err(_))) => ("err", json!({"t":"none"})),
                            Outcome::Panic(_) => ("panic", json!({"t":"none"})),
                        };
                        o.emit(&json!({"key": format!("ctor/csolve/k{}/tau{}/y{}/{}{}", k, ntau, ny, if lsq {"lsq"} else {"sq"}, if singular {"/singular"} else {""}), "op":"ctor", "fn":"csolve",
                                       "k": k, "n": n, "ntau": ntau, "ny": ny, "lsq": lsq, "singular": singular, "o": oc, "shape": shape}));
                    }
                }
            }
        }
    }
    // csolve on a spline without coefficients (order = number of knots): the only admissible data are empty
    for k in [2usize, 3] {
        let t: Vec<f64> = (0..k).map(|i| if i < k / 2 { 0.0 } else { 1.0 }).collect();
        for (ntau, ny, lsq) in [(0usize, 0usize, false), (0, 0, true), (0, 1, false), (1, 1, false)] {
            let tau = vec![0.5; ntau];
            let y = vec![1.0; ny];
            let res = guard(|| { let mut sp: PPSpline<f64> = PPSpline::new(k, t.clone(), None); let r_ = sp.csolve(&tau, &y, 0, 0, lsq).map_err(|e| e.to_string()); (sp, r_) });
            let (oc, shape) = match &res {
                Outcome::Ok((sp, Ok(()))) => ("ok", shape_spline(sp, |_| json!({"t":"F"}))),
                Outcome::Ok((_, Err(_))) => ("err", json!({"t":"none"})),
                Outcome::Panic(_) => ("panic", json!({"t":"none"})),
            };
            o.emit(&json!({"key": format!("ctor/csolve/k{}/n0/tau{}/y{}/{}", k, ntau, ny, if lsq {"lsq"} else {"sq"}), "op":"ctor", "fn":"csolve",
                           "k": k, "n": 0, "ntau": ntau, "ny": ny, "lsq": lsq, "singular": false, "o": oc, "shape": shape}));
        }
    }
    // FXRates with degenerate inputs
    let mk = |l: &str, r_: &str| FXRate::try_new(l, r_, Number::F64(1.5), None).unwrap();
    let mks = |l: &str, r_: &str, s_: Option<i64>| FXRate::try_new(l, r_, Number::F64(1.5), s_.map(dn)).unwrap();
    let sets: Vec<(&str, Vec<FXRate>, Option<&str>)> = vec![("dated-tree", vec![mks("eur", "usd", Some(20000)), mks("usd", "jpy", Some(20000))], None),
        ("dated-then-undated", vec![mks("eur", "usd", Some(20000)), mks("usd", "jpy", None)], None), ("undated-then-dated", vec![mks("eur", "usd", None), mks("usd", "jpy", Some(20000))], None),
        ("two-dates", vec![mks("eur", "usd", Some(20000)), mks("usd", "jpy", Some(20001))], None), ("dated-undated-dated", vec![mks("eur", "usd", Some(20000)), mks("usd", "jpy", None), mks("gbp", "usd", Some(20000))], None),
        ("empty", vec![], None), ("single", vec![mk("eur", "usd")], None), ("dup", vec![mk("eur", "usd"), mk("eur", "usd")], None),
        ("rev", vec![mk("eur", "usd"), mk("usd", "eur")], None), ("cycle", vec![mk("eur", "usd"), mk("usd", "jpy"), mk("jpy", "eur")], None),
        ("under", vec![mk("eur", "usd"), mk("gbp", "jpy")], None), ("base-out", vec![mk("eur", "usd")], Some("cad")), ("tree", vec![mk("eur", "usd"), mk("usd", "jpy")], Some("jpy"))];
    for (nm, qs, base) in sets {
        let res = guard(|| FXRates::try_new(qs.clone(), base.map(|b| Ccy::try_new(b).unwrap())));
        o.emit(&json!({"key": format!("ctor/FXRates/{}", nm), "op":"ctor", "fn":"FXRates::try_new", "case": nm, "tree": nm == "single" || nm == "tree" || nm == "dated-tree",
                       "o": match &res { Outcome::Ok(Ok(_)) => "ok", Outcome::Ok(Err(_)) => "err", Outcome::Panic(_) => "panic" },
                       "shape": match &res { Outcome::Ok(Ok(f)) => shape_fx(f), _ => json!({"t":"none"}) }}));
    }
    eprintln!("persist ctors: {} events", o.finish());
}

pub fn main(args: &[String]) {
    let out = arg_val(args, "--out").unwrap_or_default();
    match args[0].as_str() {
        "roundtrip" => roundtrip(arg_u64(args, "--seed", 1), arg_u64(args, "--n", 50) as usize, &out),
        "mutate" => mutate_n(arg_u64(args, "--seed", 1), arg_u64(args, "--double", 0) as usize, &out),
        "ctors" => ctors(&out),
        _ => panic!("unknown persist subcommand"),
    }
}
