//! Curve engine (C11, C12): histories of real curves - construction (CurveDF with each interpolator, or the
//! Python-facing Curve through the hook), look-ups at / around / between / beyond the nodes, and sequences of
//! derivative-order switches; after every step the node state and every look-up are logged.
//!
//! One output line per history: {"key":..,"ev":[{"op":"new"|"set_order",..,"state":{..}}]}
use crate::util::*;
use chrono::NaiveDateTime;
use indexmap::IndexMap;
use rateslib::calendars::{CalType, Convention, Modifier, NamedCal};
use rateslib::curves::{
    CurveDF, CurveInterpolation, FlatBackwardInterpolator, FlatForwardInterpolator, LinearInterpolator, LinearZeroRateInterpolator,
    LogLinearInterpolator, Nodes,
};
use rateslib::dual::{ADOrder, Dual, Dual2, Number};
use rateslib::verif::CurveH;
use serde_json::{json, Value};

pub const RULES: [&str; 5] = ["linear", "log_linear", "linear_zero_rate", "flat_forward", "flat_backward"];

fn ad(o: i64) -> ADOrder {
    match o {
        0 => ADOrder::Zero,
        1 => ADOrder::One,
        _ => ADOrder::Two,
    }
}
fn ad_num(a: ADOrder) -> i64 {
    match a {
        ADOrder::Zero => 0,
        ADOrder::One => 1,
        ADOrder::Two => 2,
    }
}

/// the object under test, behind one interface
trait Obj {
    fn value(&self, d: &NaiveDateTime) -> Number;
    fn index_value(&self, d: &NaiveDateTime) -> Result<Number, String>;
    fn set_order(&mut self, a: ADOrder);
    fn order(&self) -> ADOrder;
    fn node_index(&self, ts: i64) -> usize;
    fn nodes(&self) -> Vec<(NaiveDateTime, Number)>;
}
struct DF<T: CurveInterpolation>(CurveDF<T, NamedCal>);
impl<T: CurveInterpolation> Obj for DF<T> {
    fn value(&self, d: &NaiveDateTime) -> Number {
        self.0.interpolated_value(d)
    }
    fn index_value(&self, d: &NaiveDateTime) -> Result<Number, String> {
        self.0.index_value(d).map_err(|e| e.to_string())
    }
    fn set_order(&mut self, a: ADOrder) {
        let _ = self.0.set_ad_order(a);
    }
    fn order(&self) -> ADOrder {
        self.0.ad()
    }
    fn node_index(&self, ts: i64) -> usize {
        self.0.node_index(ts)
    }
    fn nodes(&self) -> Vec<(NaiveDateTime, Number)> {
        rateslib::verif::curvedf_nodes(&self.0)
    }
}
struct PY(CurveH);
impl Obj for PY {
    fn value(&self, d: &NaiveDateTime) -> Number {
        self.0.value(d)
    }
    fn index_value(&self, d: &NaiveDateTime) -> Result<Number, String> {
        self.0.index_value(d)
    }
    fn set_order(&mut self, a: ADOrder) {
        self.0.set_ad_order(a)
    }
    fn order(&self) -> ADOrder {
        self.0.ad()
    }
    fn node_index(&self, ts: i64) -> usize {
        self.0.node_index(ts)
    }
    fn nodes(&self) -> Vec<(NaiveDateTime, Number)> {
        self.0.nodes()
    }
}

/// Time axis of a history: integer multiples of a UNIT of 1 day or 1 minute since 1970-01-01 (so that nodes and
/// queries may carry a time of day while every logged coordinate stays a 32-bit integer).
static UNIT: std::sync::atomic::AtomicI64 = std::sync::atomic::AtomicI64::new(1);
fn unit() -> i64 {
    UNIT.load(std::sync::atomic::Ordering::Relaxed)
}
fn tdn(t: i64) -> NaiveDateTime {
    dn(0) + chrono::Duration::seconds(t * (86400 / unit()))
}
fn tnd(d: &NaiveDateTime) -> i64 {
    (*d - dn(0)).num_seconds() / (86400 / unit())
}
fn state_json(o: &dyn Obj, queries: &[i64]) -> Value {
    let nodes: Vec<Value> = o.nodes().iter().map(|(d, v)| json!({"d": tnd(d), "v": number_json(v)})).collect();
    let mut tags: Vec<String> = vec![];
    for (_, v) in o.nodes().iter() {
        for nm in number_vars(v) {
            if !tags.contains(&nm) { tags.push(nm); }
        }
    }
    let mut q = vec![];
    for &x in queries {
        let date = tdn(x);
        let idx = guard(|| o.node_index(x * (86400 / unit())));
        let val = guard(|| o.value(&date));
        let iv = guard(|| o.index_value(&date));
        // the sensitivities as a user reads them: by the node tags, in node order (not the value's own variable order)
        let (gt, ht) = match &val {
            Outcome::Ok(v) => (guard(|| grad1(v, &tags)), guard(|| grad2(v, &tags))),
            Outcome::Panic(_) => (Outcome::Panic(String::new()), Outcome::Panic(String::new())),
        };
        q.push(json!({"x": x,
            "gt": match &gt { Outcome::Ok(g) => fvec(g), Outcome::Panic(_) => json!("panic") },
            "ht": match &ht { Outcome::Ok(h) => fmat(h), Outcome::Panic(_) => json!("panic") },
            "idx": match idx { Outcome::Ok(i) => json!(i), Outcome::Panic(_) => json!(-1) },
            "o": match &val { Outcome::Ok(_) => "ok", Outcome::Panic(_) => "panic" },
            "val": match &val { Outcome::Ok(v) => number_json(v), Outcome::Panic(_) => json!({"k":"dead"}) },
            "ivo": match &iv { Outcome::Ok(Ok(_)) => "ok", Outcome::Ok(Err(_)) => "err", Outcome::Panic(_) => "panic" },
            "iv": match &iv { Outcome::Ok(Ok(v)) => number_json(v), _ => json!({"k":"dead"}) }}));
    }
    json!({"ad": ad_num(o.order()), "nodes": nodes, "tags": tags, "q": q})
}

pub struct Spec {
    pub nodes: Vec<(i64, Number)>, // as supplied (any order)
    pub rule: String,
    pub ad: i64,
    pub id: String,
    pub via: String, // "CurveDF" | "Curve"
    pub index_base: Option<f64>,
    pub unit: i64, // 1 = days, 1440 = minutes
}

fn build(s: &Spec) -> Outcome<Result<Box<dyn Obj>, String>> {
    let cal = NamedCal::try_new("all").unwrap();
    let s_nodes = s.nodes.clone();
    let rule = s.rule.clone();
    let id = s.id.clone();
    let ib = s.index_base;
    let adv = s.ad;
    if s.via == "Curve" {
        guard(move || {
            CurveH::new(s_nodes.iter().map(|(d, v)| (tdn(*d), v.clone())).collect(), &rule, ad(adv), &id, Convention::Act365F, Modifier::ModF,
                        CalType::NamedCal(NamedCal::try_new("all").unwrap()), ib)
                .map(|c| Box::new(PY(c)) as Box<dyn Obj>)
        })
    } else {
        guard(move || {
            // CurveDF takes a homogeneous node map of the kind matching `ad`
            let nodes = match adv {
                0 => Nodes::F64(IndexMap::from_iter(s_nodes.iter().map(|(d, v)| (tdn(*d), number_re(v))))),
                1 => Nodes::Dual(IndexMap::from_iter(s_nodes.iter().map(|(d, v)| (tdn(*d), Dual::from(v.clone()))))),
                _ => Nodes::Dual2(IndexMap::from_iter(s_nodes.iter().map(|(d, v)| (tdn(*d), Dual2::from(v.clone()))))),
            };
            macro_rules! mk {
                ($i:expr) => {
                    CurveDF::try_new(nodes, $i, &id, Convention::Act365F, Modifier::ModF, ib, cal).map(|c| Box::new(DF(c)) as Box<dyn Obj>).map_err(|e| e.to_string())
                };
            }
            match rule.as_str() {
                "linear" => mk!(LinearInterpolator::new()),
                "log_linear" => mk!(LogLinearInterpolator::new()),
                "linear_zero_rate" => mk!(LinearZeroRateInterpolator::new()),
                "flat_forward" => mk!(FlatForwardInterpolator::new()),
                _ => mk!(FlatBackwardInterpolator::new()),
            }
        })
    }
}

fn queries_for(dates: &[i64], r: &mut Rng) -> Vec<i64> {
    let mut ds = dates.to_vec();
    ds.sort();
    let mut q = vec![];
    for (i, d) in ds.iter().enumerate() {
        q.push(*d);
        q.push(d - 1);
        q.push(d + 1);
        if i + 1 < ds.len() {
            q.push((d + ds[i + 1]) / 2);
            q.push(d + (ds[i + 1] - d) / 3);
        }
    }
    q.push(ds[0] - 400);
    q.push(ds[ds.len() - 1] + 400);
    q.push(ds[0] - 1 - r.range(1, 3000));
    q.push(ds[ds.len() - 1] + 1 + r.range(1, 3000));
    q.retain(|x| *x > -20000 * unit() && *x < 100000 * unit());
    q.sort();
    q.dedup();
    q
}

pub fn perform(key: &str, s: &Spec, switches: &[i64], r: &mut Rng) -> Value {
    UNIT.store(s.unit, std::sync::atomic::Ordering::Relaxed);
    // what is actually handed to the constructor: the Python-facing constructor takes the numbers as they are,
    // CurveDF takes a homogeneous map of the kind matching `ad` (conversion by the crate's own From impls)
    let given = |v: &Number| -> Number {
        if s.via == "Curve" {
            v.clone()
        } else {
            match s.ad {
                0 => Number::F64(number_re(v)),
                1 => Number::Dual(Dual::from(v.clone())),
                _ => Number::Dual2(Dual2::from(v.clone())),
            }
        }
    };
    let sup: Vec<Value> = s.nodes.iter().map(|(d, v)| json!({"d": d, "v": number_json(&given(v))})).collect();
    let mut ev = vec![];
    let q = queries_for(&s.nodes.iter().map(|(d, _)| *d).collect::<Vec<_>>(), r);
    let head = json!({"op":"new","nodes":sup,"rule":s.rule,"ad":s.ad,"id":s.id,"via":s.via,"unit":s.unit,
                      "ib": s.index_base.map(fj).map(|x| json!([x])).unwrap_or(json!([]))});
    let mut obj = match build(s) {
        Outcome::Ok(Ok(o)) => o,
        Outcome::Ok(Err(_)) => {
            let mut h = head.clone();
            h["o"] = json!("err");
            return json!({"key": key, "ev": [h]});
        }
        Outcome::Panic(_) => {
            let mut h = head.clone();
            h["o"] = json!("panic");
            return json!({"key": key, "ev": [h]});
        }
    };
    let mut h = head.clone();
    h["o"] = json!("ok");
    h["state"] = state_json(obj.as_ref(), &q);
    ev.push(h);
    for &o in switches {
        let res = guard(|| {
            obj.set_order(ad(o));
        });
        match res {
            Outcome::Ok(()) => ev.push(json!({"op":"set_order","order":o,"o":"ok","state":state_json(obj.as_ref(), &q)})),
            Outcome::Panic(_) => {
                ev.push(json!({"op":"set_order","order":o,"o":"panic"}));
                break;
            }
        }
    }
    json!({"key": key, "ev": ev})
}

fn rand_value(r: &mut Rng) -> f64 {
    r.uniform(0.2, 1.5)
}

/// TLC-generated cases: {"n":count, "perm":[supply order], "rule":.., "ad":.., "via":.., "kinds":["F"|"D"...], "sw":[orders]}
pub fn replay(cases: &str, seed: u64, out: &str) {
    let mut o = Out::create(out);
    let wd = Watchdog::start(out, 60);
    let mut r = Rng::new(seed ^ 0xC11);
    for (i, c) in read_ndjson(cases).iter().enumerate() {
        let perm: Vec<i64> = c["perm"].as_array().unwrap().iter().map(|x| x.as_i64().unwrap()).collect();
        let n = perm.len();
        let rule = c["rule"].as_str().unwrap().to_string();
        // sorted dates with irregular spacing: 1 day .. ~8 years; every third case on a MINUTE axis (nodes and queries
        // with a time of day: 1 minute .. ~2 years apart)
        let unit: i64 = if i % 3 == 2 { 1440 } else { 1 };
        let mut dates = vec![(10957 + r.range(0, 3000)) * unit + if unit > 1 { r.range(0, 1439) } else { 0 }];
        for _ in 1..n {
            let step = if unit == 1 { *r.pick(&[1i64, 2, 7, 30, 91, 365, 366, 1461, 3000]) }
                       else { *r.pick(&[1i64, 2, 45, 720, 1439, 1440, 1441, 4000, 43200 + 611, 525600 + 7, 1051200 + 333]) };
            dates.push(dates[dates.len() - 1] + step);
        }
        let kinds: Vec<String> = c["kinds"].as_array().unwrap().iter().map(|x| x.as_str().unwrap().to_string()).collect();
        let mut vals: Vec<Number> = (0..n)
            .map(|k| {
                // log-linear and zero-rate curves need positive values; the other rules take any real number
                let v = if i % 4 == 1 && !["log_linear", "linear_zero_rate"].contains(&rule.as_str()) { r.uniform(-2.0, 2.0) } else { rand_value(&mut r) };
                match kinds[k % kinds.len()].as_str() {
                    // dual-valued nodes: their own names plus a common one; in every fifth case all on ONE shared list (u, v);
                    // in every fourth case second-order numbers that carry curvature of their own (the Python-facing
                    // constructor takes them as they are; CurveDF gets them converted to the order it is built at)
                    "D" => {
                        let vars = if i % 5 == 3 { vec!["u".to_string(), "v".to_string()] } else { vec![format!("own{}", k), "common".to_string()] };
                        let g = vec![r.uniform(0.5, 2.0), r.uniform(-1.0, 1.0)];
                        if i % 4 == 2 {
                            let (a, b, c) = (r.uniform(-0.5, 0.5), r.uniform(-0.5, 0.5), r.uniform(-0.5, 0.5));
                            Number::Dual2(Dual2::try_new(v, vars, g, vec![a, b, b, c]).unwrap())
                        } else {
                            Number::Dual(Dual::try_new(v, vars, g).unwrap())
                        }
                    }
                    _ => Number::F64(v),
                }
            })
            .collect();
        if rule == "linear_zero_rate" && i % 2 == 0 {
            // the first node of a discount-factor curve is PRESUMED to be 1: the rule never reads its value.
            // Half of the curves honour the presumption, the other half do not (the specification's closed form
            // ignores the first node's value in the same way).
            vals[0] = Number::F64(1.0);
        }
        // supply order given by the permutation (1-based positions in date order)
        let nodes: Vec<(i64, Number)> = perm.iter().map(|p| (dates[*p as usize - 1], vals[*p as usize - 1].clone())).collect();
        let s = Spec { nodes, rule, ad: c["ad"].as_i64().unwrap(), id: "crv".to_string(), via: c["via"].as_str().unwrap().to_string(),
                       index_base: if i % 2 == 0 { Some(100.0 + (i % 7) as f64) } else { None }, unit };
        let sw: Vec<i64> = c["sw"].as_array().unwrap().iter().map(|x| x.as_i64().unwrap()).collect();
        let key = format!("curve/gen/{}", i);
        wd.enter(&key);
        let v = perform(&key, &s, &sw, &mut r);
        wd.leave();
        o.emit(&v);
    }
    eprintln!("curve replay: {} histories", o.finish());
}

pub fn record(seed: u64, n: usize, out: &str) {
    let mut o = Out::create(out);
    let wd = Watchdog::start(out, 60);
    let mut r = Rng::new(seed ^ 0xC12);
    for i in 0..n {
        let nn = 2 + r.below(if i % 5 == 0 { 29 } else { 7 }) as usize;
        let unit: i64 = if r.chance(0.3) { 1440 } else { 1 };
        let mut dates = vec![r.range(3000, 25000) * unit + if unit > 1 { r.range(0, 1439) } else { 0 }];
        for _ in 1..nn {
            let step = *r.pick(&[1i64, 1, 2, 5, 30, 91, 182, 365, 731, 1826, 3653, 10957]);
            dates.push(dates[dates.len() - 1] + if unit == 1 { step } else if r.coin() { step } else { step * 1440 + r.range(-700, 700) });
        }
        let rule = r.pick(&RULES).to_string();
        let via = if r.coin() { "Curve" } else { "CurveDF" }.to_string();
        let dual_nodes = r.chance(0.3);
        let shared_list = r.chance(0.3);
        let curved = r.chance(0.4);
        let signed = r.chance(0.25) && !["log_linear", "linear_zero_rate"].contains(&rule.as_str());
        let mut vals: Vec<Number> = (0..nn)
            .map(|k| {
                let v = if signed { r.uniform(-2.0, 2.0) } else { rand_value(&mut r) };
                if dual_nodes && r.chance(0.6) {
                    if shared_list {
                        let g = vec![r.uniform(0.5, 2.0), r.uniform(-1.0, 1.0)];
                        if curved {
                            let (a, b, c) = (r.uniform(-0.5, 0.5), r.uniform(-0.5, 0.5), r.uniform(-0.5, 0.5));
                            Number::Dual2(Dual2::try_new(v, vec!["u".to_string(), "v".to_string()], g, vec![a, b, b, c]).unwrap())
                        } else {
                            Number::Dual(Dual::try_new(v, vec!["u".to_string(), "v".to_string()], g).unwrap())
                        }
                    } else if curved {
                        Number::Dual2(Dual2::try_new(v, vec![format!("z{}", k)], vec![r.uniform(0.5, 2.0)], vec![r.uniform(-0.5, 0.5)]).unwrap())
                    } else {
                        Number::Dual(Dual::try_new(v, vec![format!("z{}", k)], vec![r.uniform(0.5, 2.0)]).unwrap())
                    }
                } else {
                    Number::F64(v)
                }
            })
            .collect();
        if rule == "linear_zero_rate" && r.coin() {
            vals[0] = Number::F64(1.0);
        }
        let mut idx: Vec<usize> = (0..nn).collect();
        if r.chance(0.7) {
            r.shuffle(&mut idx);
        }
        let nodes: Vec<(i64, Number)> = idx.iter().map(|k| (dates[*k], vals[*k].clone())).collect();
        let s = Spec { nodes, rule, ad: r.below(3) as i64, id: r.pick(&["crv", "usd_ois", "v"]).to_string(), via,
                       index_base: if r.coin() { Some(r.uniform(50.0, 300.0)) } else { None }, unit };
        let nsw = r.below(6) as usize;
        let sw: Vec<i64> = (0..nsw).map(|_| r.below(3) as i64).collect();
        let key = format!("curve/rnd/{}", i);
        wd.enter(&key);
        let v = perform(&key, &s, &sw, &mut r);
        wd.leave();
        o.emit(&v);
    }
    eprintln!("curve record: {} histories", o.finish());
}

/// index_left directly on f64 / i64 lists: cases {"n":len, "rank":1..2n+1}
pub fn index_left(cases: &str, out: &str) {
    let mut o = Out::create(out);
    for c in read_ndjson(cases).iter() {
        let n = c["n"].as_i64().unwrap();
        let rank = c["rank"].as_i64().unwrap();
        // list 2,4,..,2n ; value = rank (odd ranks fall between / outside, even ranks hit an element)
        let li: Vec<i64> = (1..=n).map(|k| 2 * k).collect();
        let lf: Vec<f64> = li.iter().map(|x| *x as f64).collect();
        let ri = guard(|| rateslib::verif::index_left_i64(&li, &rank));
        let rf = guard(|| rateslib::verif::index_left_f64(&lf, &(rank as f64)));
        // the Python-facing function's optional `left_count` (an offset added to the answer)
        let cnt = (n + rank) as usize % 4;
        let rc = guard(|| rateslib::verif::index_left_f64_count(&lf, &(rank as f64), Some(cnt)));
        let f = |x: Outcome<usize>| match x {
            Outcome::Ok(v) => json!(v),
            Outcome::Panic(_) => json!(-1),
        };
        o.emit(&json!({"key": format!("index_left/{}/{}", n, rank), "ev": [{"op":"index_left","n":n,"rank":rank,"i64":f(ri),"f64":f(rf),"c":cnt,"f64c":f(rc)}]}));
    }
    eprintln!("curve index_left: {} events", o.finish());
}

pub fn main(args: &[String]) {
    let out = arg_val(args, "--out").unwrap_or_default();
    match args[0].as_str() {
        "replay" => replay(&args[1], arg_u64(args, "--seed", 1), &out),
        "record" => record(arg_u64(args, "--seed", 1), arg_u64(args, "--n", 100) as usize, &out),
        "index_left" => index_left(&args[1], &out),
        _ => panic!("unknown curve subcommand"),
    }
}
