//! Spline engine (C14, C15): basis functions on TLC-generated and random knot vectors; solved splines of all
//! three types evaluated with all three abscissa types.
use crate::util::*;
use rateslib::dual::{Dual, Dual2, Number, NumberMapping};
use rateslib::splines::{
    bspldnev_single_dual, bspldnev_single_dual2, bspldnev_single_f64, bsplev_single_dual, bsplev_single_dual2, bsplev_single_f64, PPSpline,
};
use rateslib::verif::spline_py as spy;
use serde_json::{json, Value};

fn basis_event(key: &str, k: usize, t: &Vec<f64>, xs: &[f64]) -> Value {
    let n = t.len() - k;
    let mut vals = vec![];
    let mut o = "ok";
    for i in 0..n {
        let mut per_m = vec![];
        for m in 0..=(k + 1) {
            let mut per_x = vec![];
            for x in xs {
                let r = guard(|| if m == 0 { bsplev_single_f64(x, i, &k, t, None) } else { bspldnev_single_f64(x, i, &k, t, m, None) });
                match r {
                    Outcome::Ok(v) => per_x.push(fj(v)),
                    Outcome::Panic(_) => {
                        o = "panic";
                        per_x.push(fj(f64::NAN))
                    }
                }
            }
            per_m.push(Value::Array(per_x));
        }
        vals.push(Value::Array(per_m));
    }
    // m = 0 through the derivative entry point too (it must agree with the value entry point)
    let via_d: Vec<Value> = (0..n).map(|i| Value::Array(xs.iter().map(|x| fj(bspldnev_single_f64(x, i, &k, t, 0, None))).collect())).collect();
    // the four dual-abscissa entry points: x carries sensitivities to two names and (second order) its own curvature
    let mut dvals = vec![];
    let mut o = o;
    for (q, x) in xs.iter().enumerate() {
        let g = 0.5 + 0.25 * (q % 3) as f64;
        let x1 = Dual::try_new(*x, vec!["x".to_string(), "w".to_string()], vec![1.0, -g]).unwrap();
        let x2 = Dual2::try_new(*x, vec!["x".to_string(), "w".to_string()], vec![1.0, g], vec![0.0, 0.25, 0.25, -0.125 * (1 + q % 2) as f64]).unwrap();
        for i in 0..n {
            for m in 0..=2usize {
                let mut push = |f: &str, xj: Value, r: Outcome<Number>| match r {
                    Outcome::Ok(v) => dvals.push(json!({"fn": f, "i": i, "m": m, "x": xj, "res": number_json(&v)})),
                    Outcome::Panic(_) => o = "panic",
                };
                if m == 0 {
                    push("bsplev_single_dual", dual_json(&x1), guard(|| Number::Dual(bsplev_single_dual(&x1, i, &k, t, None))));
                    push("bsplev_single_dual2", dual2_json(&x2), guard(|| Number::Dual2(bsplev_single_dual2(&x2, i, &k, t, None))));
                }
                if m == 0 && q % 3 == 0 {
                    // the generic mapping of the unit-coefficient spline (c_i = 1, a constant of the spline's own kind): B_i again
                    let unit1: Vec<Dual> = (0..n).map(|j| Dual::new(if j == i { 1.0 } else { 0.0 }, vec![])).collect();
                    let unit2: Vec<Dual2> = (0..n).map(|j| Dual2::new(if j == i { 1.0 } else { 0.0 }, vec![])).collect();
                    let s1: PPSpline<Dual> = PPSpline::new(k, t.clone(), Some(unit1));
                    let s2: PPSpline<Dual2> = PPSpline::new(k, t.clone(), Some(unit2));
                    if let Outcome::Ok(Ok(v)) = guard(|| s1.mapped_value(&Number::Dual(x1.clone())).map_err(|e| e.to_string())) { push("mapped_value", dual_json(&x1), Outcome::Ok(v)); } else { push("mapped_value", dual_json(&x1), Outcome::Panic(String::new())); }
                    if let Outcome::Ok(Ok(v)) = guard(|| s2.mapped_value(&Number::Dual2(x2.clone())).map_err(|e| e.to_string())) { push("mapped_value", dual2_json(&x2), Outcome::Ok(v)); } else { push("mapped_value", dual2_json(&x2), Outcome::Panic(String::new())); }
                }
                push("bspldnev_single_dual", dual_json(&x1), guard(|| Number::Dual(bspldnev_single_dual(&x1, i, &k, t, m, None))));
                push("bspldnev_single_dual2", dual2_json(&x2), guard(|| Number::Dual2(bspldnev_single_dual2(&x2, i, &k, t, m, None))));
            }
        }
    }
    // the vector entry point (`PPSpline::bspldnev`, what Python's `bsplev` / `bspldnev` call) on the points in REVERSE order:
    // point by point it must be the single-point function
    let rev: Vec<f64> = xs.iter().rev().cloned().collect();
    let sp: PPSpline<f64> = PPSpline::new(k, t.clone(), None);
    let mut vec_rev = vec![];
    for i in 0..n {
        let mut per_m = vec![];
        for m in 0..=1usize {
            match guard(|| sp.bspldnev(&rev, &i, &m)) {
                Outcome::Ok(v) => per_m.push(fvec(&v)),
                Outcome::Panic(_) => { o = "panic"; per_m.push(json!([])) }
            }
        }
        vec_rev.push(Value::Array(per_m));
    }
    // the collocation matrix on MORE sites than functions (all the in-domain points, ascending; value rows at both ends):
    // entry (j, i) is B_i at site j
    let mut sites: Vec<f64> = xs.iter().cloned().filter(|x| *x >= t[0] && *x <= t[t.len() - 1]).collect();
    sites.sort_by(|a, b| a.partial_cmp(b).unwrap());
    sites.dedup();
    let matrix = match guard(|| sp.bsplmatrix(&sites, 0, 0)) {
        Outcome::Ok(mx) => Value::Array((0..mx.shape()[0]).map(|j| fvec(&(0..mx.shape()[1]).map(|i| mx[[j, i]]).collect::<Vec<f64>>())).collect()),
        Outcome::Panic(_) => { o = "panic"; json!([]) }
    };
    // the same matrix with DERIVATIVE rows at the two ends (first row of order left_n at the first site, last row of order
    // right_n at the last site), for unequal pairs of orders
    let mut matrix_lr = vec![];
    if sites.len() >= 2 {
        for (l, rr) in [(1usize, 0usize), (0, 1), (2, 1), (1, 2), (3, 0)] {
            match guard(|| sp.bsplmatrix(&sites, l, rr)) {
                Outcome::Ok(mx) => {
                    let last = mx.shape()[0] - 1;
                    matrix_lr.push(json!({"l": l, "r": rr, "first": fvec(&(0..mx.shape()[1]).map(|i| mx[[0, i]]).collect::<Vec<f64>>()), "last": fvec(&(0..mx.shape()[1]).map(|i| mx[[last, i]]).collect::<Vec<f64>>())}));
                }
                Outcome::Panic(_) => { o = "panic"; }
            }
        }
    }
    // each basis function as the Python-facing spline class sees it: the spline whose only non-zero coefficient is c_i = 1,
    // through the three single-point derivative methods with a FLOAT abscissa
    let mut pyvals = vec![];
    for i in 0..n {
        let mut c = vec![0.0; n];
        c[i] = 1.0;
        let psp = spy::f64_new(k, t.clone(), Some(c));
        for (q, x) in xs.iter().enumerate().filter(|(q, _)| q % 3 == 0) {
            for m in 0..=2usize {
                for f in ["ppdnev_single", "ppdnev_single_dual", "ppdnev_single_dual2"] {
                    match guard(|| spy::f64_eval(&psp, f, Number::F64(*x), m)) {
                        Outcome::Ok(Ok(v)) => pyvals.push(json!({"fn": f, "i": i, "m": m, "q": q + 1, "res": number_json(&v)})),
                        Outcome::Ok(Err(e)) => pyvals.push(json!({"fn": f, "i": i, "m": m, "q": q + 1, "res": {"k": "E", "e": e}})),
                        Outcome::Panic(_) => o = "panic",
                    }
                }
            }
        }
    }
    // the Python-facing FREE functions `bsplev_single` / `bspldnev_single`: every basis index (the last one included), every
    // derivative order, a third of the points - each must be the core function's own value, or an error where that panics
    let mut pyfree = vec![];
    for i in 0..n {
        for (q, x) in xs.iter().enumerate().filter(|(q, _)| q % 3 == 1 || *q + 1 == xs.len()) {
            for m in 0..=(k + 1) {
                let r = if m == 0 && q % 2 == 0 { guard(|| spy::py_bsplev_single(*x, i, k, t.clone())) } else { guard(|| spy::py_bspldnev_single(*x, i, k, t.clone(), m)) };
                match r {
                    Outcome::Ok(Ok(v)) => pyfree.push(json!({"i": i, "m": m, "q": q + 1, "o": "ok", "v": fj(v)})),
                    Outcome::Ok(Err(c)) => pyfree.push(json!({"i": i, "m": m, "q": q + 1, "o": c, "v": fj(0.0)})),
                    Outcome::Panic(_) => pyfree.push(json!({"i": i, "m": m, "q": q + 1, "o": "panic", "v": fj(0.0)})),
                }
            }
        }
    }
    json!({"key": key, "op": "basis", "k": k, "t": fvec(t), "xs": fvec(xs), "vals": vals, "m0_via_deriv": via_d, "dvals": dvals, "vec_rev": vec_rev,
           "sites": fvec(&sites), "matrix": matrix, "matrix_lr": matrix_lr, "pyvals": pyvals, "pyfree": pyfree, "o": o})
}

/// TLC-generated knot vectors (MC_BSpline.CaseSeq): k, t (integers as doubles), nx quarter points
pub fn basis(cases: &str, out: &str) {
    let mut o = Out::create(out);
    for (ci, c) in read_ndjson(cases).iter().enumerate() {
        let k = c["k"].as_u64().unwrap() as usize;
        let t: Vec<f64> = jfvec(&c["t"]);
        let nx = c["nx"].as_u64().unwrap();
        let mut xs: Vec<f64> = (0..=nx).map(|q| q as f64 / 4.0).collect();
        xs.push(-0.5);
        xs.push(t[t.len() - 1] + 0.5);
        o.emit(&basis_event(&format!("basis/gen/{}", ci), k, &t, &xs));
    }
    eprintln!("spline basis: {} events", o.finish());
}

fn random_knots(r: &mut Rng, k: usize) -> Vec<f64> {
    let a = r.uniform(-3.0, 3.0);
    let mut t = vec![a; k];
    let mut cur = a;
    let nint = r.below(6) as usize;
    for _ in 0..nint {
        cur += r.uniform(0.2, 2.5);
        let mult = 1 + if k > 2 && r.chance(0.3) { r.below((k - 1) as u64) as usize } else { 0 };
        for _ in 0..mult.min(k - 1).max(1) {
            t.push(cur);
        }
    }
    cur += r.uniform(0.2, 2.5);
    for _ in 0..k {
        t.push(cur);
    }
    t
}

pub fn basis_random(seed: u64, n: usize, out: &str) {
    let mut o = Out::create(out);
    let mut r = Rng::new(seed ^ 0xC14);
    for i in 0..n {
        let k = 1 + r.below(6) as usize;
        let t = random_knots(&mut r, k);
        let (a, b) = (t[0], t[t.len() - 1]);
        let mut xs: Vec<f64> = t.clone();
        xs.dedup();
        let distinct = xs.clone();
        for w in distinct.windows(2) {
            xs.push(0.5 * (w[0] + w[1]));
            xs.push(w[0] + 0.25 * (w[1] - w[0]));
        }
        for _ in 0..6 {
            xs.push(r.uniform(a, b));
        }
        o.emit(&basis_event(&format!("basis/rnd/{}", i), k, &t, &xs));
    }
    eprintln!("spline basis-random: {} events", o.finish());
}

// ------------------------------------------------------------------------------------------ solved splines (C15)
fn greville(t: &[f64], k: usize) -> Vec<f64> {
    let n = t.len() - k;
    let (a, b) = (t[0], t[t.len() - 1]);
    // averages of k-1 consecutive knots; clamped, because (b + b + b) / 3 need not be exactly b in floating point
    (0..n).map(|i| if k == 1 { t[i] } else { (t[i + 1..i + k].iter().sum::<f64>() / (k - 1) as f64).clamp(a, b) }).collect()
}

fn numvec(v: &[Number]) -> Value {
    Value::Array(v.iter().map(number_json).collect())
}

struct Scenario {
    k: usize,
    t: Vec<f64>,
    tau: Vec<f64>,
    yv: Vec<f64>,
    left_n: usize,
    right_n: usize,
    lsq: bool,
    layout: &'static str,
    poly: Vec<f64>, // coefficients of the generating polynomial (empty if none)
}

fn eval_points(r: &mut Rng, t: &[f64]) -> Vec<f64> {
    let (a, b) = (t[0], t[t.len() - 1]);
    let mut xs = vec![a, b, 0.5 * (a + b)];
    let mut d = t.to_vec();
    d.dedup();
    for w in d.windows(2) {
        xs.push(0.5 * (w[0] + w[1]));
    }
    if d.len() > 2 {
        xs.push(d[1]);
    }
    for _ in 0..3 {
        xs.push(r.uniform(a, b));
    }
    xs
}

fn run_scenario(key: &str, s: &Scenario, kind: &str, r: &mut Rng) -> Value {
    let n = s.t.len() - s.k;
    let names: Vec<String> = (0..s.yv.len()).map(|j| format!("y{}", j)).collect();
    // data values of the spline's own kind, each datum tagged with its own variable
    let y: Vec<Number> = s.yv.iter().enumerate().map(|(j, v)| match kind {
        "F" => Number::F64(*v),
        "D1" => Number::Dual(Dual::new(*v, vec![names[j].clone()])),
        _ => Number::Dual2(Dual2::new(*v, vec![names[j].clone()])),
    }).collect();
    let xs = eval_points(r, &s.t);
    // abscissas of the three kinds
    // (float abscissae only on a seconds axis: there the piecewise-polynomial ORACLE, expanded in powers of x ~ 1e9, is not
    //  accurate enough for the first / second derivative factors a dual abscissa brings in; values are)
    let huge = s.t[s.t.len() - 1].abs() > 1e6;
    let absc: Vec<Number> = xs.iter().enumerate().map(|(q, x)| match if huge { 0 } else { q % 3 } {
        0 => Number::F64(*x),
        1 => Number::Dual(Dual::try_new(*x, vec!["x".to_string(), "w".to_string()], vec![1.0, r.uniform(-1.0, 1.0)]).unwrap()),
        _ => Number::Dual2(Dual2::try_new(*x, vec!["x".to_string(), "w".to_string()], vec![1.0, r.uniform(-1.0, 1.0)], vec![0.0, 0.25, 0.25, r.uniform(-0.5, 0.5)]).unwrap()),
    }).collect();
    let head = json!({"key": key, "op": "spline", "k": s.k, "t": fvec(&s.t), "tau": fvec(&s.tau), "y": numvec(&y), "left_n": s.left_n, "right_n": s.right_n,
                      "lsq": s.lsq, "kind": kind, "layout": s.layout, "n": n, "poly": fvec(&s.poly)});
    macro_rules! go {
        ($T:ty, $unwrap:expr, $wrap:expr, $pnew:path, $pcsolve:path, $peval:path, $pvec:path, $pbasis:path, $pcoef:path, $pmisc:path) => {{
            let mut sp: PPSpline<$T> = PPSpline::new(s.k, s.t.clone(), None);
            let yy: Vec<$T> = y.iter().map($unwrap).collect();
            let before = guard(|| sp.ppdnev_single(&xs[0], 0).is_err());
            let res = guard(|| sp.csolve(&s.tau, &yy, s.left_n, s.right_n, s.lsq).map_err(|e| e.to_string()));
            let mut h = head.clone();
            h["unsolved_eval_is_err"] = json!(matches!(before, Outcome::Ok(true)));
            match res {
                Outcome::Panic(_) => { h["o"] = json!("panic"); h }
                Outcome::Ok(Err(_)) => { h["o"] = json!("err"); h }
                Outcome::Ok(Ok(())) => {
                    h["o"] = json!("ok");
                    let c: Vec<Number> = sp.c().as_ref().unwrap().iter().map(|v| $wrap(v.clone())).collect();
                    h["c"] = numvec(&c);
                    let mut ev = vec![];
                    for x in absc.iter() {
                        for m in 0..=(s.k.min(3)) {
                            // the typed entry points
                            let (f, outc): (&str, Outcome<Result<Number, String>>) = match x {
                                Number::F64(xf) => ("ppdnev_single", guard(|| sp.ppdnev_single(xf, m).map($wrap).map_err(|e| e.to_string()))),
                                Number::Dual(xd) => ("ppdnev_single_dual", guard(|| sp.ppdnev_single_dual(xd, m).map(Number::Dual).map_err(|e| e.to_string()))),
                                Number::Dual2(xd) => ("ppdnev_single_dual2", guard(|| sp.ppdnev_single_dual2(xd, m).map(Number::Dual2).map_err(|e| e.to_string()))),
                            };
                            let (oc, rj) = match outc { Outcome::Ok(Ok(v)) => ("ok", number_json(&v)), Outcome::Ok(Err(_)) => ("err", json!({"k":"dead"})), Outcome::Panic(_) => ("panic", json!({"k":"dead"})) };
                            ev.push(json!({"fn": f, "x": number_json(x), "m": m, "o": oc, "res": rj}));
                        }
                        // the generic mapping (value only)
                        let mv = guard(|| sp.mapped_value(x).map_err(|e| e.to_string()));
                        let (oc, rj) = match mv { Outcome::Ok(Ok(v)) => ("ok", number_json(&v)), Outcome::Ok(Err(_)) => ("err", json!({"k":"dead"})), Outcome::Panic(_) => ("panic", json!({"k":"dead"})) };
                        ev.push(json!({"fn": "mapped_value", "x": number_json(x), "m": 0, "o": oc, "res": rj}));
                    }
                    h["ev"] = Value::Array(ev);
                    // the same spline through the Python-facing class: construct, solve, read back, every
                    // single-point method x every abscissa kind, the vector methods, copy / equality
                    let pyres = guard(|| -> Result<Value, String> {
                        let mut psp = $pnew(s.k, s.t.clone(), None);
                        $pcsolve(&mut psp, s.tau.clone(), yy.clone(), s.left_n, s.right_n, s.lsq)?;
                        let (pn, pk, pt, pc) = $pcoef(&psp)?;
                        let mut pev = vec![];
                        for x in absc.iter() {
                            for f in ["ppev_single", "ppev_single_dual", "ppev_single_dual2", "ppdnev_single", "ppdnev_single_dual", "ppdnev_single_dual2"] {
                                for m in 0..=2usize {
                                    if f.starts_with("ppev") && m > 0 { continue; }
                                    let (oc, rj) = match $peval(&psp, f, x.clone(), m) { Ok(v) => ("ok".to_string(), number_json(&v)), Err(c) => (c, json!({"k":"dead"})) };
                                    pev.push(json!({"fn": f, "x": number_json(x), "m": m, "o": oc, "res": rj}));
                                }
                            }
                        }
                        let vx: Vec<f64> = xs.iter().take(4).cloned().collect();
                        let v0 = $pvec(&psp, vx.clone(), None)?;
                        let v1 = $pvec(&psp, vx.clone(), Some(1))?;
                        let b0 = $pbasis(&psp, vx.clone(), 0, None)?;
                        let b1 = $pbasis(&psp, vx.clone(), pn - 1, Some(1))?;
                        let (eqc, _json) = $pmisc(&psp)?;
                        Ok(json!({"n": pn, "k": pk, "t": fvec(&pt), "c": pc.map(|c| numvec(&c)).unwrap_or(json!([])), "ev": pev,
                                  "vx": fvec(&vx), "ppev": numvec(&v0), "ppdnev1": numvec(&v1), "bsplev0": fvec(&b0), "bspldnev_last1": fvec(&b1), "copy_eq": eqc}))
                    });
                    h["py"] = match pyres { Outcome::Ok(Ok(v)) => v, Outcome::Ok(Err(c)) => json!({"fail": c}), Outcome::Panic(_) => json!({"fail": "panic"}) };
                    h
                }
            }
        }};
    }
    let mut h = match kind {
        "F" => go!(f64, |v: &Number| number_re(v), Number::F64, spy::f64_new, spy::f64_csolve, spy::f64_eval, spy::f64_vec, spy::f64_basis, spy::f64_coef, spy::f64_misc),
        "D1" => go!(Dual, |v: &Number| Dual::from(v.clone()), Number::Dual, spy::dual_new, spy::dual_csolve, spy::dual_eval, spy::dual_vec, spy::dual_basis, spy::dual_coef, spy::dual_misc),
        _ => go!(Dual2, |v: &Number| Dual2::from(v.clone()), Number::Dual2, spy::dual2_new, spy::dual2_csolve, spy::dual2_eval, spy::dual2_vec, spy::dual2_basis, spy::dual2_coef, spy::dual2_misc),
    };
    // unit-data solutions (float splines solved on e_j): the sensitivities of the spline to each datum
    if h["o"] == "ok" && kind != "F" && !s.lsq {
        let mut unit = vec![];
        for j in 0..s.yv.len() {
            let mut e = vec![0.0; s.yv.len()];
            e[j] = 1.0;
            let mut sp: PPSpline<f64> = PPSpline::new(s.k, s.t.clone(), None);
            if let Outcome::Ok(Ok(())) = guard(|| sp.csolve(&s.tau, &e, s.left_n, s.right_n, s.lsq).map_err(|e| e.to_string())) {
                unit.push(fvec(&sp.c().as_ref().unwrap().to_vec()));
            } else {
                unit.push(json!([]));
            }
        }
        h["unit"] = Value::Array(unit);
    }
    h
}

pub fn solve(seed: u64, n: usize, out: &str) {
    let mut o = Out::create(out);
    let wd = Watchdog::start(out, 60);
    let mut r = Rng::new(seed ^ 0xC15);
    for i in 0..n {
        let mut k = 2 + r.below(5) as usize; // orders 2..6
        if i % 5 == 4 && r.chance(0.7) {
            k = 4; // the seconds axis is where cubic curve splines live
        }
        // interior knots (simple, or repeated where the site layout allows it)
        // one scenario in five lives on an x-axis in SECONDS (knots years apart: 3e7 .. 1e9), the way the library's own
        // curve splines are indexed by timestamps; derivative rows of the collocation matrix are then ~1e-16
        let sc: f64 = if i % 5 == 4 { 31_536_000.0 } else { 1.0 };
        let a = if sc > 1.0 { 0.0 } else { r.uniform(-2.0, 2.0) };
        let mut t = vec![a; k];
        let mut cur = a;
        let p = 1 + r.below(5) as usize;
        let mut interior = vec![];
        // (on the seconds axis mostly the natural / clamped cubic layouts, whose end rows are second / first derivatives)
        let choice = if i % 5 == 4 && k == 4 && r.chance(0.7) { 2 + r.below(2) } else { r.below(8) };
        // the site layouts built from the Greville abscissae also admit REPEATED interior knots (multiplicity up to
        // k - 1: the spline stays continuous); the other layouts place their sites by the interior knots or evenly, which
        // is admissible for simple knots only
        let repeats_ok = [0u64, 1, 6, 7].contains(&choice) && k >= 3;
        for _ in 0..p {
            cur += if sc > 1.0 { r.uniform(0.4, 12.0) } else { r.uniform(0.4, 2.0) } * sc;
            // (double knots, orders up to 5: with triple knots at order 6 the oracle's expansion in powers of x is no
            //  longer accurate to the tolerance asked of the code - seen under seed 7, the crate's answer was exact)
            let mult = if repeats_ok && k <= 5 && r.chance(0.3) { 2 } else { 1 };
            for _ in 0..mult.min(k - 1) {
                t.push(cur);
            }
            interior.push(cur);
        }
        cur += if sc > 1.0 { r.uniform(0.4, 12.0) } else { r.uniform(0.4, 2.0) } * sc;
        let b = cur;
        for _ in 0..k {
            t.push(b);
        }
        let nn = t.len() - k;
        let (tau, left_n, right_n, lsq, layout): (Vec<f64>, usize, usize, bool, &'static str) = match choice {
            0 | 1 => (greville(&t, k), 0, 0, false, "one-site-per-coefficient"),
            2 if k == 4 => {
                let mut tau = vec![a, a];
                tau.extend(interior.iter());
                tau.extend([b, b]);
                (tau, 2, 2, false, "natural")
            }
            3 if k == 4 => {
                let mut tau = vec![a, a];
                tau.extend(interior.iter());
                tau.extend([b, b]);
                let (l, rr) = *r.pick(&[(1usize, 1usize), (1, 2), (2, 1), (1, 3), (3, 2)]);
                (tau, l, rr, false, "clamped")
            }
            4 => {
                // least squares: more sites than coefficients - the Greville sites (one per coefficient: full rank whatever the
                // knot spacing) and some of the midpoints between them
                let g = greville(&t, k);
                let mut tau = vec![];
                for w in 0..g.len() {
                    tau.push(g[w]);
                    if w + 1 < g.len() && g[w + 1] > g[w] && r.chance(0.6) { tau.push(0.5 * (g[w] + g[w + 1])); }
                }
                if tau.len() == g.len() { tau.insert(1, 0.5 * (g[0] + g[1])); }
                (tau, 0, 0, true, "least-squares")
            }
            6 => {
                // both END sites strictly inside the domain (the end conditions then sit at interior points): the Greville
                // sites with the first and the last moved part of the way towards their neighbours, which keeps every
                // site inside the support of its basis function (Schoenberg-Whitney)
                let mut g = greville(&t, k);
                let m = g.len();
                let w = r.uniform(0.15, 0.6);
                g[0] += w * (g[1] - g[0]);
                g[m - 1] -= w * (g[m - 1] - g[m - 2]);
                (g, 0, 0, false, "interior-sites")
            }
            7 => {
                // least squares on sites that stop short of both ends: contracted Greville sites (so that every
                // coefficient has data: full rank) with the midpoints between them as surplus
                let mut g = greville(&t, k);
                let m = g.len();
                g[0] += 0.4 * (g[1] - g[0]);
                g[m - 1] -= 0.4 * (g[m - 1] - g[m - 2]);
                let mut tau = vec![];
                for w in 0..g.len() {
                    tau.push(g[w]);
                    if w + 1 < g.len() && r.chance(0.6) { tau.push(0.5 * (g[w] + g[w + 1])); }
                }
                if tau.len() == g.len() { tau.insert(1, 0.5 * (g[0] + g[1])); }
                (tau, 0, 0, true, "least-squares-interior")
            }
            5 => {
                // mismatched counts: must be an error
                // too few sites with or without least squares allowed, or too many without it
                let mut tau = greville(&t, k);
                let lsq = match r.below(3) {
                    0 => { tau.pop(); false }
                    1 => { tau.pop(); if tau.len() > 2 && r.coin() { tau.remove(1); } true }
                    _ => { tau.push(b + 1.0 * sc); false }
                };
                (tau, 0, 0, lsq, "mismatch")
            }
            _ => (greville(&t, k), 0, 0, false, "one-site-per-coefficient"),
        };
        // data: from a polynomial of degree < k (half of the cases), otherwise arbitrary
        // (seconds axis: data from a polynomial, so that the solved spline is pinned down by reproduction)
        let use_poly = (r.coin() || sc > 1.0) && layout != "mismatch";
        // (coefficients in x / sc, so that the data stay of order one on the seconds axis too)
        let poly: Vec<f64> = if use_poly { (0..(1 + r.below(k as u64) as usize)).map(|d| r.uniform(-1.0, 1.0) / sc.powi(d as i32)).collect() } else { vec![] };
        let pd = |x: f64, m: usize| -> f64 {
            // m-th derivative of the polynomial at x
            let mut c: Vec<f64> = poly.clone();
            for _ in 0..m {
                c = c.iter().enumerate().skip(1).map(|(d, v)| d as f64 * v).collect();
            }
            c.iter().rev().fold(0.0, |acc, v| acc * x + v)
        };
        let mut yv: Vec<f64> = tau.iter().map(|x| if use_poly { pd(*x, 0) } else { r.uniform(-2.0, 2.0) }).collect();
        if use_poly && !yv.is_empty() {
            yv[0] = pd(tau[0], left_n);
            let last = yv.len() - 1;
            yv[last] = pd(tau[last], right_n);
        } else if !yv.is_empty() {
            // arbitrary data: an end condition on the m-th derivative is given in units of x^-m
            yv[0] /= sc.powi(left_n as i32);
            let last = yv.len() - 1;
            yv[last] /= sc.powi(right_n as i32);
        }
        if layout == "mismatch" && r.coin() && !yv.is_empty() {
            yv.pop(); // tau and y of different lengths
        }
        let s = Scenario { k, t, tau, yv, left_n, right_n, lsq, layout, poly };
        // float data on the seconds axis: there the sensitivity to an end-DERIVATIVE datum is of order 1e8 and the solver's
        // row scaling (not a property of the code under test) limits it to ~1e-8 relative, beyond the 1e-9 this check asks for
        let kind = if sc > 1.0 { "F" } else { *r.pick(&["F", "D1", "D2"]) };
        let key = format!("spline/{}/{}/{}", layout, kind, i);
        wd.enter(&key);
        let v = run_scenario(&key, &s, kind, &mut r);
        wd.leave();
        o.emit(&v);
    }
    eprintln!("spline solve: {} events", o.finish());
}

// ------------------------------------------------------------------------------------------ the life of one spline object
/// Runs every TLC-generated history (Gen_SplineLife: sequences of solve / refused solve / evaluate / copy / store-and-load
/// calls) on a real spline object - the core `PPSpline<T>` or the Python-facing class - and records, after every call, the
/// outcome and the coefficients the object then holds, next to the coefficients FRESH objects get from the same data.
pub fn life(cases: &str, out: &str) {
    let mut o = Out::create(out);
    let wd = Watchdog::start(out, 60);
    for (hi, case) in read_ndjson(cases).iter().enumerate() {
        let kind = ["F", "D1", "F", "D2", "F"][hi % 5];
        let via = if (hi / 5) % 2 == 0 { "core" } else { "py" };
        let (k, t): (usize, Vec<f64>) = match hi % 3 {
            0 => (3, vec![0.0, 0.0, 0.0, 1.0, 2.5, 4.0, 4.0, 4.0]),
            1 => (4, vec![-1.0, -1.0, -1.0, -1.0, 0.5, 1.0, 3.0, 3.0, 3.0, 3.0]),
            _ => (2, vec![0.0, 0.0, 1.0, 1.75, 3.0, 3.0]),
        };
        let n = t.len() - k;
        let tau_e = greville(&t, k);
        let mut tau_l = vec![];
        for w in 0..tau_e.len() {
            tau_l.push(tau_e[w]);
            if w + 1 < tau_e.len() { tau_l.push(0.5 * (tau_e[w] + tau_e[w + 1])); }
        }
        let yval = |d: usize, j: usize| -> f64 { ((j * 7 + d * 3) % 11) as f64 * 0.37 - 1.5 + 0.01 * d as f64 };
        let xs = [0.5 * (t[0] + t[t.len() - 1]), t[k] - 0.25];
        let key = format!("spline/life/{}/{}/{}", kind, via, hi);
        wd.enter(&key);
        macro_rules! go {
            ($T:ty, $mk:expr, $wrap:expr, $Py:ty, $pnew:path, $pcsolve:path, $peval:path, $pcoef:path, $pmisc:path) => {{
                let data = |d: usize, m: usize| -> Vec<$T> { (0..m).map(|j| $mk(yval(d, j), j)).collect() };
                // what fresh objects get: coefficients and values per (data set, mode)
                let mut refs = serde_json::Map::new();
                for d in 1..=2usize {
                    for mode in ["exact", "lsq"] {
                        let tau = if mode == "exact" { &tau_e } else { &tau_l };
                        let mut sp: PPSpline<$T> = PPSpline::new(k, t.clone(), None);
                        let r = guard(|| sp.csolve(tau, &data(d, tau.len()), 0, 0, mode == "lsq").map_err(|e| e.to_string()));
                        let v = match r {
                            Outcome::Ok(Ok(())) => {
                                let c: Vec<Number> = sp.c().as_ref().unwrap().iter().map(|v| $wrap(v.clone())).collect();
                                let mut ev = vec![];
                                for x in xs.iter() { for m in 0..=1usize {
                                    ev.push(match guard(|| sp.ppdnev_single(x, m).map($wrap).map_err(|e| e.to_string())) { Outcome::Ok(Ok(v)) => number_json(&v), _ => json!({"k": "dead"}) });
                                } }
                                json!({"o": "ok", "c": numvec(&c), "ev": ev})
                            }
                            _ => json!({"o": "fail"}),
                        };
                        refs.insert(format!("{}{}", d, mode), v);
                    }
                }
                let mut core: PPSpline<$T> = PPSpline::new(k, t.clone(), None);
                let mut py: $Py = $pnew(k, t.clone(), None);
                let mut steps = vec![];
                for op in case["ops"].as_array().unwrap() {
                    let name = op["op"].as_str().unwrap();
                    let mut st = json!({});
                    let call = |core: &mut PPSpline<$T>, py: &mut $Py, tau: &[f64], y: Vec<$T>, lsq: bool| -> &'static str {
                        let r = if via == "core" { guard(|| core.csolve(tau, &y, 0, 0, lsq).map_err(|e| e.to_string())) }
                                else { guard(|| $pcsolve(py, tau.to_vec(), y.clone(), 0, 0, lsq)) };
                        match r { Outcome::Ok(Ok(())) => "ok", Outcome::Ok(Err(_)) => "err", Outcome::Panic(_) => "panic" }
                    };
                    match name {
                        "solve" => {
                            let d = op["d"].as_u64().unwrap() as usize;
                            let lsq = op["mode"] == "lsq";
                            let tau = if lsq { &tau_l } else { &tau_e };
                            st["o"] = json!(call(&mut core, &mut py, tau, data(d, tau.len()), lsq));
                        }
                        "bad" => {
                            let (tau, ylen, lsq): (Vec<f64>, usize, bool) = match op["why"].as_str().unwrap() {
                                "few" => (tau_e[..n - 1].to_vec(), n - 1, false),
                                "few_lsq" => (tau_e[..n - 1].to_vec(), n - 1, true),
                                "many" => (tau_l.clone(), tau_l.len(), false),
                                "ylen" => (tau_e.clone(), n - 1, false),
                                _ => (tau_l.clone(), tau_l.len() - 1, true),
                            };
                            st["o"] = json!(call(&mut core, &mut py, &tau, data(1, ylen), lsq));
                        }
                        "eval" => {
                            let mut ev = vec![];
                            let mut outs = std::collections::BTreeSet::new();
                            for x in xs.iter() { for m in 0..=1usize {
                                let r = if via == "core" { guard(|| core.ppdnev_single(x, m).map($wrap).map_err(|e| e.to_string())) }
                                        else { guard(|| $peval(&py, "ppdnev_single", Number::F64(*x), m)) };
                                match r {
                                    Outcome::Ok(Ok(v)) => { outs.insert("ok"); ev.push(number_json(&v)); }
                                    Outcome::Ok(Err(_)) => { outs.insert("err"); ev.push(json!({"k": "dead"})); }
                                    Outcome::Panic(_) => { outs.insert("panic"); ev.push(json!({"k": "dead"})); }
                                }
                            } }
                            st["o"] = json!(if outs.len() == 1 { *outs.iter().next().unwrap() } else { "mixed" });
                            st["ev"] = Value::Array(ev);
                        }
                        "copy" => {
                            if via == "core" {
                                match guard(|| { let cl = core.clone(); let e = cl == core; (cl, e) }) {
                                    Outcome::Ok((cl, e)) => { core = cl; st["o"] = json!("ok"); st["eq"] = json!(e); }
                                    Outcome::Panic(_) => { st["o"] = json!("panic"); }
                                }
                            } else {
                                match guard(|| $pmisc(&py)) {
                                    Outcome::Ok(Ok((e, _))) => { st["o"] = json!("ok"); st["eq"] = json!(e); }
                                    Outcome::Ok(Err(_)) => { st["o"] = json!("err"); }
                                    Outcome::Panic(_) => { st["o"] = json!("panic"); }
                                }
                            }
                        }
                        _ => {
                            // a document written and read back; the object read back carries on
                            if via == "core" {
                                match guard(|| -> Result<(PPSpline<$T>, bool), String> {
                                    let doc = serde_json::to_string(&core).map_err(|e| e.to_string())?;
                                    let back: PPSpline<$T> = serde_json::from_str(&doc).map_err(|e| e.to_string())?;
                                    let e = back == core;
                                    Ok((back, e))
                                }) {
                                    Outcome::Ok(Ok((b, e))) => { core = b; st["o"] = json!("ok"); st["eq"] = json!(e); }
                                    Outcome::Ok(Err(_)) => { st["o"] = json!("err"); }
                                    Outcome::Panic(_) => { st["o"] = json!("panic"); }
                                }
                            } else {
                                match guard(|| -> Result<($Py, bool), String> {
                                    let doc = serde_json::to_string(&py).map_err(|e| e.to_string())?;
                                    let back: $Py = serde_json::from_str(&doc).map_err(|e| e.to_string())?;
                                    let e = back == py;
                                    Ok((back, e))
                                }) {
                                    Outcome::Ok(Ok((b, e))) => { py = b; st["o"] = json!("ok"); st["eq"] = json!(e); }
                                    Outcome::Ok(Err(_)) => { st["o"] = json!("err"); }
                                    Outcome::Panic(_) => { st["o"] = json!("panic"); }
                                }
                            }
                        }
                    }
                    // the coefficients the object holds now
                    let held: Option<Vec<Number>> = if via == "core" { core.c().as_ref().map(|c| c.iter().map(|v| $wrap(v.clone())).collect()) }
                                                    else { match guard(|| $pcoef(&py)) { Outcome::Ok(Ok((_, _, _, pc))) => pc, _ => Some(vec![]) } };
                    st["has"] = json!(held.is_some());
                    st["c"] = match held { Some(c) => numvec(&c), None => json!([]) };
                    steps.push(st);
                }
                json!({"key": key, "op": "life", "kind": kind, "via": via, "k": k, "n": n, "ops": case["ops"], "steps": steps, "refs": Value::Object(refs)})
            }};
        }
        // (only the first two data carry a variable: keeps the second-order records small)
        let tag = |j: usize| if j < 2 { vec![format!("y{}", j)] } else { vec![] };
        let v = match kind {
            "F" => go!(f64, |v: f64, _j: usize| v, Number::F64, rateslib::splines::PPSplineF64, spy::f64_new, spy::f64_csolve, spy::f64_eval, spy::f64_coef, spy::f64_misc),
            "D1" => go!(Dual, |v: f64, j: usize| Dual::new(v, tag(j)), Number::Dual, rateslib::splines::PPSplineDual, spy::dual_new, spy::dual_csolve, spy::dual_eval, spy::dual_coef, spy::dual_misc),
            _ => go!(Dual2, |v: f64, j: usize| Dual2::new(v, tag(j)), Number::Dual2, rateslib::splines::PPSplineDual2, spy::dual2_new, spy::dual2_csolve, spy::dual2_eval, spy::dual2_coef, spy::dual2_misc),
        };
        wd.leave();
        o.emit(&v);
    }
    eprintln!("spline life: {} events", o.finish());
}

pub fn main(args: &[String]) {
    let out = arg_val(args, "--out").unwrap_or_default();
    match args[0].as_str() {
        "basis" => basis(&args[1], &out),
        "basis-random" => basis_random(arg_u64(args, "--seed", 1), arg_u64(args, "--n", 100) as usize, &out),
        "life" => life(&args[1], &out),
        "solve" => solve(arg_u64(args, "--seed", 1), arg_u64(args, "--n", 100) as usize, &out),
        _ => panic!("unknown spline subcommand"),
    }
}
