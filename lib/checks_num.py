"""C01 C02 C03 C17 C18 C19 : number types (spec: FP, DualAlgebra, NumVM, MC_NumVM, MC_Layout, Gen_NumVM, Trace_NumVM)."""
import json, os, time, copy, re
import vlib
from vlib import tlc, tlc_parallel, Verdicts, write_evidence

FAMILIES = {"C01": ["layout", "kinds", "py", "tails"], "C02": ["layout", "kinds", "py", "read", "tails"], "C03": ["layout", "py"], "C17": ["read", "layout", "py"], "C18": ["kinds", "py"], "C19": ["order", "kinds", "py"]}
MODELS = {"C01": ["MC_NumVM"], "C02": ["MC_NumVM"], "C03": ["MC_Layout"], "C17": ["MC_Layout"], "C18": ["MC_Layout"], "C19": ["MC_NumVM"]}
RANDOM = {"C01": ("D1",), "C02": ("D2",), "C03": (), "C17": ("D2",), "C18": (), "C19": ("D1", "D2")}


def coverage_summary(out):
    res = {}
    for m in re.finditer(r"^<(\w+) line \d+, col \d+ to line \d+, col \d+ of module (\w+)>: (\d+):(\d+)", out, re.M):
        res[m.group(1)] = int(m.group(4))
    return res


def parse_set(txt):
    txt = txt.strip()
    if txt in ("{}", ""):
        return []
    return [int(x) for x in txt.strip("{} ").split(",")]


def step_key(P, s):
    ins = P["steps"][s - 1]["ins"]
    nl = len(P["leaves"])

    def kind(i):
        r = P["leaves"][i - 1]["res"] if i <= nl else P["steps"][i - nl - 1]["res"]
        return ("N" if r.get("n") else "") + str(r.get("k"))
    ks = "/".join(kind(ins[x]) for x in ("a", "b") if x in ins)
    form = ins.get("fa", "") + ins.get("fb", "")
    return "num/%s/%s/%s" % (ins["op"], ks, form)


def validate(pid, traces, tag, V, shards=8):
    jobs, paths = [], []
    for t in traces:
        k = max(1, min(shards, vlib.count_lines(t) // 12))
        ps, _ = vlib.split_file(t, k, t + ".s")
        for p in ps:
            paths.append(p)
            jobs.append(dict(module="Trace_NumVM", env={"TRACE": p, "PROP": pid}, tag="%s-v%d" % (tag, len(paths)), cont=True, timeout=3000, xmx="3g"))
    rs = tlc_parallel(jobs)
    progs = judged = skipped = 0
    for p, r in zip(paths, rs):
        for ln in r["prints"]:
            f = vlib.print_fields(ln)
            if f and f[0] == "STATS":
                progs += f[1]
                judged += f[2]
                skipped += f[3]
        Ps = None
        for v in r["violations"]:
            if Ps is None:
                Ps = vlib.read_ndjson(p)
            st = v["state"]
            P = Ps[int(st["i"]) - 1]
            for li in parse_set(st.get("badl", "{}")):
                lf = P["leaves"][li - 1]
                V.add("num/leaf/%s/%s" % (lf["spec"]["t"], lf["o"]), "program %s: leaf %d %s rejected by NumVM.tla" % (P["key"], li, json.dumps(lf)[:400]),
                      {"engine": "num", "event": {"key": P["key"], "leaves": P["leaves"][:li], "steps": []}}, src=p)
            for s in parse_set(st.get("bads", "{}"))[:6]:
                stp = P["steps"][s - 1]
                V.add(step_key(P, s), "program %s: step %d %s -> %s %s rejected by NumVM.tla" % (P["key"], s, json.dumps(stp["ins"]), stp["o"], json.dumps(stp["res"])[:300]),
                      {"engine": "num", "event": {"key": P["key"], "leaves": P["leaves"], "steps": P["steps"][:s]}}, src=p)
    return progs, judged, skipped


def _f(v):
    import struct
    return struct.unpack(">d", struct.pack(">II", v[0] & 0xffffffff, v[1] & 0xffffffff))[0]


def binding_demo(pid, trace, d, tag):
    """corrupt one derivative of one recorded result; TLC must reject exactly that program"""
    Ps = vlib.read_ndjson(trace)
    want_ops = {"C01": ("mul", "div", "exp", "pow"), "C02": ("mul", "div", "exp", "pow"), "C03": ("add", "mul", "sub"), "C17": ("gradient1",),
                "C18": ("mul", "add"), "C19": ("rem", "abs")}[pid]
    tries = []
    for P in Ps:
        for si, st in enumerate(P["steps"]):
            r = st["res"]
            if st["ins"]["op"] in want_ops and st["o"] == "ok" and ((r.get("k") in ("D1", "D2") and len(r.get("d", [])) >= 1) or (r.get("k") == "V" and len(r["v"]) >= 2)):
                if pid == "C02" and r.get("k") != "D2":
                    continue
                if pid == "C01" and r.get("k") != "D1":
                    continue
                if r.get("k") in ("D1", "D2") and abs(_f(r["d"][0])) < 0.1:
                    continue
                if pid == "C18" and not r.get("n"):
                    continue
                good = {"key": P["key"], "leaves": P["leaves"], "steps": P["steps"][:si + 1]}
                bad = copy.deepcopy(good)
                rr = bad["steps"][si]["res"]
                if rr["k"] == "V":
                    rr["v"][0], rr["v"][1] = rr["v"][1], rr["v"][0]
                    if rr["v"][0] == rr["v"][1]:
                        continue
                elif pid == "C02" and rr["raw2"] and rr["raw2"][0]:
                    rr["raw2"][0][0][0] ^= 1 << 18
                    rr["d2"][0][0][0] ^= 1 << 18
                else:
                    rr["d"][0][0] ^= 1 << 18      # flip a high mantissa bit of one derivative
                p = os.path.join(d, "corrupt.ndjson")
                with open(p, "w") as f:
                    f.write(json.dumps(good) + "\n" + json.dumps(bad) + "\n")
                r2 = tlc("Trace_NumVM", env={"TRACE": p, "PROP": pid}, tag=tag + "-bind", cont=True, timeout=300)
                rej = [v for v in r2["violations"] if v["name"] == "Accepted"]
                if not (len(rej) == 1 and rej[0]["state"].get("i") == "2"):
                    # a step outside the judged domain (e.g. a remainder by zero) is skipped by the specification, so its
                    # corruption is not a rejection: move on to the next candidate (a handful at most)
                    tries.append(P["key"])
                    if len(tries) >= 8 or r2["violations"]:
                        raise vlib.ToolError("binding demonstration failed: %s (tried %s)" % (r2["violations"], tries))
                    break
                return {"program": P["key"], "corrupted_step": si + 1, "op": st["ins"]["op"], "rejected_program_index": 2, "uncorrupted_accepted": True}
    raise vlib.ToolError("binding demonstration: no suitable step")


def run(pid, tier):
    t0 = time.time()
    vlib.build_java()
    vlib.build_harness()
    d = vlib.workdir(pid.lower())
    tag = pid.lower()
    V = Verdicts(pid)
    seed = vlib.seed()
    quick = tier == "quick"
    # (M)
    states = trans = 0
    cov = {}
    for mod in MODELS[pid]:
        if mod == "MC_NumVM":
            cfgtxt = open(os.path.join(vlib.SPEC, "MC_NumVM_quick.cfg")).read()
            if not quick:
                cfgtxt = cfgtxt.replace("MaxDepth = 2", "MaxDepth = 3")
            cfgp = os.path.join(d, "mcnum.cfg")
            open(cfgp, "w").write(cfgtxt)
            r = tlc("MC_NumVM", cfg=cfgp[:-4], tag=tag + "-mc", workers=10, xmx="12g", timeout=6000, coverage=quick)
        else:
            cfgtxt = open(os.path.join(vlib.SPEC, "MC_Layout.cfg")).read()
            if not quick:
                cfgtxt = cfgtxt.replace('{"a", "b", "c"}', '{"a", "b", "c", "e"}')
            cfgp = os.path.join(d, "mclay.cfg")
            open(cfgp, "w").write(cfgtxt)
            r = tlc("MC_Layout", cfg=cfgp[:-4], tag=tag + "-mc", workers=10, xmx="12g", timeout=6000, coverage=quick)
        states += r.get("distinct", 0)
        trans += r.get("generated", 0)
        cov.update(coverage_summary(r["out"]))
        for v in r["violations"]:
            V.add("model/%s/%s" % (mod, v["name"]), "%s invariant %s violated: %s" % (mod, v["name"], str(v["state"])[:600]), {"engine": "model", "state": str(v["state"])[:3000]})
    # (G) -> (R)
    traces = []
    for fam in FAMILIES[pid]:
        cases = os.path.join(d, fam + ".cases")
        gencfg = "Gen_NumVM_quick" if (quick or fam in ("layout",)) else "Gen_NumVM_thorough"
        tlc("Gen_NumVM", cfg=gencfg, env={"OUT": cases, "FAMILY": fam}, tag="%s-gen-%s" % (tag, fam), timeout=1800, xmx="6g")
        out = os.path.join(d, fam + ".ndjson")
        if vlib.record(V, ["numvm", "exec", cases, "--out", out]):
            traces.append(out)
    for kind in RANDOM[pid]:
        out = os.path.join(d, "rnd_%s.ndjson" % kind)
        if vlib.record(V, ["numvm", "random", "--seed", seed, "--n", 2500 if quick else 40000, "--kind", kind, "--out", out]):
            traces.append(out)
    progs, judged, skipped = validate(pid, traces, tag, V, shards=8 if quick else 14)
    bind = binding_demo(pid, traces[0], d, tag) if traces and not V.viol else {"skipped": "violations were found"}
    sample = []
    if traces:
        P = vlib.read_ndjson(traces[-1])[0]
        sample = [{"program": P["key"], "leaves": [l["spec"] for l in P["leaves"]][:4], "first_steps": [s["ins"] for s in P["steps"][:6]]}]
    if judged == 0:
        raise vlib.ToolError("no step was judged (vacuous run)")
    covd = dict(states=states, transitions=trans, action_coverage=cov, traces_validated_against_impl=progs, evaluations=judged, distinct_nontrivial=judged,
                skipped_outside_domain=skipped,
                rule="one trace = one NumVM program executed on the real crate (one crate call per instruction), every owned instruction judged against the logged operands; exhaustive families are written by TLC (Gen_NumVM: every ordered pair of variable lists over the name universe x Arc sharing / zero padding x operators x owned/borrowed and float-left/right forms; every stored x requested list; the 3x3 kind table; signed value pairs), random programs of depth 3-8 over <= 6 variables are seeded; 'evaluations' counts judged instructions (all distinct: each is a different (program, instruction))",
                exhaustive=not RANDOM[pid], binding_demo=bind, samples=sample)
    assumptions = ["numeric agreement to 1e-9 of the sum of absolute terms of the textbook rule (+1e-12), computed by TLC in IEEE double arithmetic; values are sampled points, not all reals",
                   "instructions outside the differentiable / tame domain (log, non-integer pow of a base <= 0.05, abs within 0.01 of 0, inv_norm_cdf outside (0.01, 0.99), |component| >= 1e6, x^0 and x^1 at exactly 0) are skipped and counted",
                   "the vars_cmp classification itself is recorded, not judged (the property is about results)",
                   "FP.java supplies only + - * / pow exp log and the normal cdf/pdf/quantile (independent of statrs); TLC and the harness's recording are trusted"]
    rc = V.finish()
    write_evidence(pid, tier, "model_checking", covd, assumptions, time.time() - t0, len(V.viol))
    vlib.clean_tmp()
    return rc
