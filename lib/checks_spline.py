"""C14 / C15 : B-splines (spec: BSpline, MC_BSpline, Trace_BSpline; C15 also DualAlgebra)."""
import json, os, time, copy, re
import vlib
from vlib import tlc, tlc_parallel, Verdicts, write_evidence


def coverage_summary(out):
    res = {}
    for m in re.finditer(r"^<(\w+) line \d+, col \d+ to line \d+, col \d+ of module (\w+)>: (\d+):(\d+)", out, re.M):
        res[m.group(1)] = int(m.group(4))
    return res


def run(pid, tier):
    t0 = time.time()
    vlib.build_java()
    vlib.build_harness()
    d = vlib.workdir(pid.lower())
    tag = pid.lower()
    V = Verdicts(pid)
    seed = vlib.seed()
    quick = tier == "quick"
    mc = tlc("MC_BSpline", cfg="MC_BSpline_quick" if quick else "MC_BSpline_thorough", tag=tag + "-mc", workers=8, xmx="6g", timeout=5000, coverage=True)
    for v in mc["violations"]:
        V.add("model/" + v["name"], "MC_BSpline invariant %s violated: %s" % (v["name"], str(v["state"])[:500]), {"engine": "model", "state": str(v["state"])[:2000]})
    traces = []
    if pid == "C14":
        cases = os.path.join(d, "knots.cases")
        tlc("Gen_BSpline", cfg="Gen_BSpline_quick" if quick else "Gen_BSpline_thorough", env={"OUT": cases}, tag=tag + "-gen", timeout=900, xmx="4g")
        out = os.path.join(d, "basis.ndjson")
        if vlib.record(V, ["spline", "basis", cases, "--out", out]):
            traces.append(out)
        out = os.path.join(d, "basis_rnd.ndjson")
        if vlib.record(V, ["spline", "basis-random", "--seed", seed, "--n", 150 if quick else 3000, "--out", out]):
            traces.append(out)
    else:
        out = os.path.join(d, "solve.ndjson")
        if vlib.record(V, ["spline", "solve", "--seed", seed, "--n", 160 if quick else 2500, "--out", out]):
            traces.append(out)
    life = {}
    if pid == "C15":
        # the life of one spline object: every history of solve / refused solve / evaluate / copy / store-and-load calls
        lmc = tlc("MC_SplineLife", cfg="MC_SplineLife_quick" if quick else "MC_SplineLife_thorough", tag=tag + "-lifemc", workers=4, xmx="3g", timeout=3000, coverage=True)
        for v in lmc["violations"]:
            V.add("model/life/" + v["name"], "MC_SplineLife %s violated: %s" % (v["name"], str(v["state"])[:500]), {"engine": "model", "state": str(v["state"])[:2000]})
        lcases = os.path.join(d, "life.cases")
        tlc("Gen_SplineLife", cfg="Gen_SplineLife_quick" if quick else "Gen_SplineLife_thorough", env={"OUT": lcases}, tag=tag + "-lifegen", timeout=900, xmx="3g")
        lout = os.path.join(d, "life.ndjson")
        life = {"model_states": lmc["distinct"], "histories": vlib.count_lines(lcases), "calls": 0, "action_coverage": coverage_summary(lmc["out"])}
        if vlib.record(V, ["spline", "life", lcases, "--out", lout]):
            lps, _ = vlib.split_file(lout, 8 if quick else 14, lout + ".s")
            ljobs = [dict(module="Trace_SplineLife", env={"TRACE": p}, tag="%s-life%d" % (tag, j), cont=True, timeout=5000, xmx="3g") for j, p in enumerate(lps)]
            for p, r in zip(lps, tlc_parallel(ljobs)):
                E = vlib.read_ndjson(p)
                life["calls"] += r.get("distinct", 0) - len(E)
                seen = set()
                for v in r["violations"]:
                    i, l = int(v["state"]["i"]), int(v["state"]["l"])
                    if i in seen:
                        continue
                    seen.add(i)
                    e = E[i - 1]
                    op = e["ops"][l - 1] if l >= 1 else {"op": "refs"}
                    key = "spline/life/%s/%s/%s" % (e["kind"], e["via"], op["op"] + ("/" + op["why"] if "why" in op else ""))
                    small = {"key": e["key"], "ops": e["ops"], "rejected_call": l, "observed": {k: (w if k != "c" else len(w)) for k, w in (e["steps"][l - 1].items() if l >= 1 else [])  if k != "ev"}}
                    V.add(key, "history rejected by SplineLife.tla at call %d: %s" % (l, json.dumps(small)), {"engine": "spline", "module": "Trace_SplineLife", "event": e, "call": l}, src=p)
    rt = {"events": 0}
    if pid == "C14":
        rt = vlib.repo_test_traces()          # every outermost basis-function call made by the repository's own tests
        if vlib.count_lines(rt["spline"]):
            traces.append(rt["spline"])
    jobs, paths = [], []
    for t in traces:
        k = max(1, min(12 if quick else 14, vlib.count_lines(t) // 8))
        ps, _ = vlib.split_file(t, k, t + ".s")
        for p in ps:
            paths.append(p)
            jobs.append(dict(module="Trace_BSpline", env={"TRACE": p, "PROP": pid}, tag="%s-v%d" % (tag, len(paths)), cont=True, timeout=5000, xmx="3g"))
    vr = tlc_parallel(jobs)
    events = evals = 0
    for p, r in zip(paths, vr):
        events += r.get("distinct", 0)
        E = vlib.read_ndjson(p)
        for e in E:
            if e["op"] == "basis1":
                evals += 1
            elif e["op"] == "basis":
                evals += len(e["vals"]) * (e["k"] + 2) * len(e["xs"])
            else:
                evals += len(e.get("ev", [])) + len(e["tau"])
        for v in r["violations"]:
            e = E[int(v["state"]["i"]) - 1]
            if e["op"] == "basis1":
                key = "spline/repotest/%s/k=%d/m=%d" % (e["fn"], e["k"], e["m"])
                small = {"key": e["key"], "k": e["k"], "i": e["i"], "m": e["m"], "knots": len(e["t"])}
            elif e["op"] == "basis":
                key = "spline/basis/k=%d" % e["k"]
                small = {"key": e["key"], "k": e["k"], "knots": len(e["t"])}
            else:
                key = "spline/solve/%s/%s/k=%d" % (e["layout"], e["kind"], e["k"])
                small = {"key": e["key"], "k": e["k"], "layout": e["layout"], "kind": e["kind"], "left_n": e["left_n"], "right_n": e["right_n"], "outcome": e["o"]}
            V.add(key, "event rejected by BSpline.tla: %s" % json.dumps(small), {"engine": "spline", "event": e}, src=p)
    bind = {"skipped": "violations were found"}
    if traces and not V.viol:
        E = vlib.read_ndjson(traces[0])
        for e in E:
            bad = copy.deepcopy(e)
            if e["op"] == "basis" and e["k"] >= 3:
                # alter one recorded first-derivative value by a high mantissa bit
                cand = [(i, q) for i in range(len(e["vals"])) for q in range(len(e["xs"])) if e["vals"][i][1][q] != [0, 0]]
                if not cand:
                    continue
                i, q = cand[len(cand) // 2]
                bad["vals"][i][1][q][0] ^= 1 << 16
            elif e["op"] == "spline" and e["o"] == "ok" and e.get("ev"):
                vs = [v for v in bad["ev"] if v["o"] == "ok" and v["m"] == 1 and abs(vlib_f(v["res"]["re"])) > 1e-3]
                if not vs:
                    continue
                vs[0]["res"]["re"][0] ^= 1 << 16
            else:
                continue
            p = os.path.join(d, "corrupt.ndjson")
            with open(p, "w") as f:
                f.write(json.dumps(e) + "\n" + json.dumps(bad) + "\n")
            r = tlc("Trace_BSpline", env={"TRACE": p, "PROP": pid}, tag=tag + "-bind", cont=True, timeout=600)
            rej = [v for v in r["violations"] if v["name"] == "Accepted"]
            if not (len(rej) == 1 and rej[0]["state"].get("i") == "2"):
                raise vlib.ToolError("binding demonstration failed: %s" % r["violations"])
            bind = {"corrupted_event": e["key"], "rejected_event_index": 2, "uncorrupted_accepted": True}
            break
    if pid == "C15" and life and not V.viol:
        # a second demonstration, on a history: a refused call that (in the record) wiped the coefficients must be rejected
        for e in vlib.read_ndjson(os.path.join(d, "life.ndjson")):
            idx = [j for j, o in enumerate(e["ops"]) if o["op"] == "bad" and j >= 1 and e["steps"][j - 1]["has"]]
            if not idx:
                continue
            bad = copy.deepcopy(e)
            bad["steps"][idx[0]]["has"] = False
            bad["steps"][idx[0]]["c"] = []
            p = os.path.join(d, "corrupt_life.ndjson")
            with open(p, "w") as f:
                f.write(json.dumps(e) + "\n" + json.dumps(bad) + "\n")
            r = tlc("Trace_SplineLife", env={"TRACE": p}, tag=tag + "-lifebind", cont=True, timeout=600)
            rej = [v for v in r["violations"] if v["name"] == "Accepted"]
            if not (len(rej) == 1 and rej[0]["state"].get("i") == "2" and rej[0]["state"].get("l") == str(idx[0] + 1)):
                raise vlib.ToolError("binding demonstration (life) failed: %s" % r["violations"])
            life["binding_demo"] = {"corrupted_history": e["key"], "corrupted_call": idx[0] + 1, "rejected_at_call": idx[0] + 1, "uncorrupted_accepted": True}
            break
    sample = []
    if traces:
        e = vlib.read_ndjson(traces[1 if len(traces) > 1 else 0])[1]
        sample = [{k: e[k] for k in ("key", "k", "layout", "kind", "left_n", "right_n", "lsq", "o") if k in e}]
        sample[0]["knots"] = len(e["t"])
    cov = dict(states=mc["distinct"], transitions=mc["generated"], action_coverage=coverage_summary(mc["out"]),
               traces_validated_against_impl=events, evaluations=evals, distinct_nontrivial=evals, repo_test_events=rt["events"],
               rule=("C14: every (basis index, derivative order 0..k+1, sample point) of every knot multiplicity pattern written by TLC (knots 0^k, interior 1..3 with multiplicities, 4^k; quarter points incl. both end points and two points outside) plus random real knot vectors of orders 1..6, the Dual / Dual2 entry points, and every outermost basis-function call the repository's own tests make (hooks on); "
                     "C15: seeded solved splines of orders 2..6 (one site per coefficient, natural and clamped cubic layouts with repeated end sites and derivative conditions, least squares, mismatched counts) of all three spline types, each evaluated with all three abscissa types at derivative orders 0..3 and through mapped_value; 'evaluations' counts recorded values judged; object_histories: every sequence of up to 3 (thorough: 4) calls from {solve on either data set, exact or least squares; five refused solves; evaluate; copy; store and load} written by TLC from SplineLife.tla, run on the core spline of each type and on the Python-facing class, validated call by call (outcome, coefficients held bit for bit those of a fresh solve or none, evaluation refused exactly while unsolved)"),
               exhaustive=(pid == "C14"), binding_demo=bind, samples=sample)
    if life:
        cov["object_histories"] = life
    assumptions = ["the oracle is the piecewise polynomial of the Cox-de Boor recursion in the monomial basis, evaluated by TLC in doubles; agreement to 1e-9 of the sum of absolute monomial terms",
                   "interior knots of the solved-spline scenarios are simple, or repeated up to k-1 times in the Greville-based layouts, so that the generated site layouts are admissible (Schoenberg-Whitney)",
                   "spline order above 6 is not explored"]
    rc = V.finish()
    write_evidence(pid, tier, "model_checking", cov, assumptions, time.time() - t0, len(V.viol))
    vlib.clean_tmp()
    return rc


def vlib_f(v):
    import struct
    return struct.unpack(">d", struct.pack(">II", v[0] & 0xffffffff, v[1] & 0xffffffff))[0]
