#!/usr/bin/env python3
"""Regenerates /verif/MANIFEST.json from the table below (run after registering a new check)."""
import json, os
ROOT = os.path.dirname(os.path.dirname(os.path.abspath(__file__)))
BASELINE = "cd /repo && cargo nextest run --workspace --no-fail-fast --tool-config-file pb:/w/lib/nextest.toml --profile pb --test-threads 8 --offline || cargo test --workspace --no-fail-fast --offline"

CHECKS = {
 "C04": dict(engine="cal", cat="model_checking", design="5/C04",
   technique="TLA+ model (MC_Calendar: day-stepping loops as a state machine, Alg = Decl) model-checked by TLC; TLC-generated calendar family replayed into Cal/UnionCal/CalType and random + built-in calendars recorded, every roll validated by TLC against Calendar.tla (Trace_Calendar)",
   text="TLC exhausts every holiday subset x settlement subset x week mask of a month-end window for every date, modifier and flag on the model and checks the loop transcription against the declarative 'first eligible date' rule; the same family plus seeded random and built-in calendars is run through the real crate and every recorded answer is judged by TLC against the declarative rule.",
   note="Assumes the harness's bitmap projection (is_bus_day / is_settlement of the real object) and TLC are sound; values of dates are explored, not proved for all calendars; closures of 11+ months and weeks without a common working day are excluded."),
 "C05": dict(engine="cal", cat="model_checking", design="5/C05",
   technique="TLA+ model of the add_bus_days counter loop with loop invariants model-checked by TLC; recorded add_bus_days / lag / bus_date_range / add_days answers (incl. the i8 extremes) validated by TLC against the declarative counting rule",
   text="The counter loop is a TLC-checked state machine whose invariant is the business-day count; the declarative rule (n-th business day, then onward to a settleable day; inverse law; error on non-business start; lag corner cells left open as the property leaves them) judges every recorded call of the real crate.",
   note="Same trusted base as C04; day counts cover -128..127 on windows wide enough for 128 business days; two lag corner cells accept two answers (DESIGN 5/C05)."),
 "C08": dict(engine="cal", cat="model_checking", design="5/C08",
   technique="TLC checks add_months' truncating year/remainder carry logic against total-months arithmetic for every start month x offset x roll kind (MC_Months) and DateArith on every day 1970-2200; recorded add_months / get_roll / get_imm / get_eom / is_leap_year results validated by TLC",
   text="Exhaustive over the discrete structure (month, offset remainder and sign, roll kind, month length, leap years) in the model; every month of 1970-2200 and a covering set of (start, offset, roll) cases through the real functions, judged by TLC.",
   note="Offsets beyond +-1300 months are not explored; the Gregorian arithmetic of DateArith.tla is self-checked on every day of the range and trusted beyond."),
 "C06": dict(engine="named", cat="model_checking", design="5/C06",
   technique="TLA+ grammar model (MC_NamedCal: tokens appended one at a time, split-based parser = declarative grammar) model-checked by TLC; every TLC-generated token sequence replayed into NamedCal::try_new in random letter case and judged by TLC date-for-date against the union of individually built members; explicit unions and ==-pairs recorded and validated (Trace_NamedCal)",
   text="Exhaustive over name strings up to the model's length bound (outcome class and behaviour), seeded over explicit unions and equality pairs with the differing day placed at the range boundaries; TLC is the judge of every recorded observation.",
   note="Probe windows (3 x 400 days) rather than every date for names; equality pairs are projected by diffing the two real objects over 1970-2200; member calendars' own is_bus_day is trusted here (C07 ties the built-in ones to their rules)."),
 "C07": dict(engine="named", cat="model_checking", design="5/C07",
   technique="Published holiday rules transcribed into NamedCal.tla; TLC checks rule-level theorems (fed = nyc minus Good Friday, no spill across years) for 1970-2200 and validates the real tables year by year (14 names x 231 years) and the nine shipped fixing histories as publication-by-publication histories (Trace_Fixings)",
   text="Exhaustive over the data: every weekday of 1970-2200 for every built-in name is compared by TLC with the published rules (exactly for 7 calendars, one-sided for 5, empty for all/bus), every documented name is resolved directly and through NamedCal, and each fixing history is replayed as a behaviour of the calendar.",
   note="The rule transcription in NamedCal.tla (from named/*_script.py and the RULES constants) is the trusted oracle; weekend entries of the tables are not judged (the property is about weekdays)."),
 "C09": dict(engine="fx", cat="model_checking", design="5/C09",
   technique="Exact (exponent-vector) TLA+ model of FXRates::try_new and one-recursion-level-per-action triangulation, model-checked by TLC for every quote sequence/base/settlement configuration against the signed tree path (safety + termination under fairness); every configuration replayed into the real FXRates with seeded rates and random 2-12 currency trees recorded; TLC validates outcome class, quoted pairs bit-exactly, diagonal, every cross against the path product",
   text="TLC exhausts all quote sequences over 4 (thorough: 5) currencies incl. under/over-specified, cyclic, duplicated and reversed sets and proves the algorithm equals the declarative path vector; the same configurations and larger random trees go through the real crate and every rate is judged by TLC, which also re-checks the declarative layer on each validated market.",
   note="Values to 1e-9 relative in IEEE double arithmetic recomputed by TLC; markets above 12 currencies not explored; TLC / FP.java / harness recording trusted."),
 "C10": dict(engine="fx", cat="model_checking", design="5/C10",
   technique="TLA+ history model (Update with refused / accepted arms, SetOrder, rebuild through try_new) model-checked by TLC (exponents never change, refused updates change nothing, index stable); recorded histories of real FXRates objects validated step by step by TLC incl. first- and second-order sensitivities by expected variable name derived from the path exponents",
   text="Every step of every recorded history (up to 12 operations on 2-12 currency markets, float and dual quotes) is an action of the specification; values, gradients by name fx_<pair> (or the quote's own variables) and Hessians are recomputed by TLC from the spec state built from the latest quotes.",
   note="Sensitivities to 1e-9 of the sum of absolute terms; Hessians on all pairs up to 4 currencies and a probe subset above; order reset by update is modelled, not judged."),
 "C01": dict(engine="num", cat="model_checking", design="5/C01",
   technique="TLA+ register machine over by-name dual numbers (DualAlgebra/NumVM): TLC explores every program of depth <= 2 (thorough 3) and checks the textbook rules against finite differences of an independent float evaluator; TLC-written exhaustive depth-1 programs (all layout pairs x operators x owned/borrowed and float-left/right forms) and seeded random programs are executed on the real crate and every instruction is validated by TLC against the logged operands; the Python-facing arithmetic methods (__add__ ... __pow__, PyNum.tla) are judged by the same rules",
   text="The rules are validated against calculus inside TLC; every operator impl the macros generate is called once per layout pair, and compositions of depth 3-8 are validated step by step, so rounding never accumulates and a wrong sign/factor/index in one variant is an O(1) error against a 1e-9 tolerance.",
   note="Sampled real points, not all reals; non-differentiable points and ill-conditioned magnitudes are skipped and counted; FP.java primitives and TLC trusted."),
 "C02": dict(engine="num", cat="model_checking", design="5/C02",
   technique="Same machine at second order: TLC checks Hessian rules against second-order finite differences and symmetry on every explored program; recorded Dual2 instructions are validated by TLC on the TRUE Hessian (2 x the stored array, read independently of gradient2), with asymmetric stored arrays in the exhaustive family so that transpositions are visible; lowering to first order must drop only the Hessian",
   text="Per-step validation of value, gradient and full Hessian by ordered name pair for every operator, layout pair and operand form, plus random compositions with non-zero symmetric Hessian leaves.",
   note="As C01; Hessian tolerance 1e-9 of the sum of absolute terms."),
 "C03": dict(engine="num", cat="model_checking", design="5/C03",
   technique="MC_Layout: the vars_cmp / to_new_vars / to_union_vars / aligned-operator transcription on concrete layouts model-checked by TLC against by-name meaning for every ordered pair of variable lists (x shared Arc) and every requested list; the same exhaustive layout family (incl. re-indexed-onto-the-other's-Arc and zero-padded operands) executed on the crate for + - * / % == and the Vars operations and validated by TLC",
   text="Exhaustive over layouts up to the name-universe bound (3 names quick, 4 in the thorough model): results by name, union of names without duplicates, matching array shapes, equality with missing = zero.",
   note="The classification returned by vars_cmp is recorded, not judged; name universe of 3 (4) names."),
 "C17": dict(engine="num", cat="model_checking", design="5/C17",
   technique="MC_Layout checks the fast-path / lookup-path read-back transcription against by-name meaning for every stored x requested list; the same product is executed on the crate (gradient1, gradient2, gradient1_manifold incl. an absent name, also on a product of two second-order numbers) and every returned entry is compared bit for bit by TLC",
   text="Exhaustive over stored and requested orders (fast path and lookup path both hit for every stored order); the manifold product-rule identity follows from the validated mul step plus the validated manifold read-back of the product.",
   note="Name universe of 3 (4) names plus one absent name; requested lists are duplicate-free as the property states."),
 "C18": dict(engine="num", cat="model_checking", design="5/C18",
   technique="TLC-written kind-table programs: every operator of the generic Number container x the 3x3 kind pairs x float-left/right x owned/borrowed, every From impl and set_order / set_order_clone cell; TLC validates each against the contained-type rule and requires the two mixed-order arms to be refused (panic), never computed; container operations compared bit for bit with the same operation on the contained types (TwinVerdict); the Python-facing operator table of Dual / Dual2 (PyNum.tla: which core operation and operand order each __op__/__rop__ denotes, TypeError on first/second-order mixes, pickle protocol) executed through cfg-guarded hooks and judged by TLC by translation to the core instruction",
   text="The full table is enumerated, not spot-checked; conversions are compared field by field (names, unit sensitivities, zero Hessian, only higher-order terms dropped).",
   note="A refusal is observed as a caught panic; an abort would be reported by C20."),
 "C19": dict(engine="num", cat="model_checking", design="5/C19",
   technique="TLC-written programs over signed value pairs x layouts x kinds x float position for < <= > >= == !=, abs, signum, %, sum, zero/one identities, abs_sub; each result validated by TLC (comparison on values, abs flips everything, a % b = a - b*trunc(a/b) in value and derivatives, sum = left fold from zero); quotients beyond the 32-bit integers and signed zeros included; random compositions containing % validated step by step",
   text="All four sign combinations of dividend and divisor, equal values, number/float pairs in both positions, Dual / Dual2 / Number.",
   note="Remainders whose quotient is within 1e-6 of (but not exactly) an integer are skipped."),
 "C11": dict(engine="curve", cat="model_checking", design="5/C11",
   technique="index_left's recursion as a TLC-checked state machine (one level per step, slice invariant, Alg = 'first node on or after, clamped') for every length and rank; TLC-enumerated supply orders x rules x constructors replayed into CurveDF / the Python-facing Curve and random curves recorded; every look-up (node index, value, index value) validated by TLC against the rule's closed form on the two nodes of the declarative interval",
   text="Interval selection is exhaustive on the model and replayed through the real index_left for every length/rank; interpolation rules are validated at, +-1 day around, between and beyond every node for every supply order of 2-4 (5) nodes and on random 2-30 node curves.",
   note="Closed forms recomputed by TLC in doubles to 1e-9; dates are midnight day numbers; overflowing extrapolations are not judged."),
 "C12": dict(engine="curve", cat="model_checking", design="5/C12",
   technique="Derivative-order switching as a TLC-checked state machine (all switch sequences; values stable, tagging '<id><i>' in date order, 1<->2 keeps names); every TLC-enumerated switch sequence performed on real curves of every rule; after each switch the node state and the value, gradient and Hessian of every look-up are validated by TLC against the closed form evaluated on DualAlgebra numbers, index values against base / value",
   text="All sequences of up to 3 (4) switches from every initial order, float-valued and dual-valued nodes with custom names, both constructors; sensitivities are derived by TLC from the same TLA+ closed form as the values.",
   note="As C11; Hessians to 1e-9 of the sum of absolute terms."),
 "C13": dict(engine="gauss", cat="model_checking", design="5/C13",
   technique="Gaussian elimination with partial pivoting as a TLC-checked state machine on exact rationals (Pivot with last-maximum tie-break, Swap of A and b together, Eliminate, BackSub; invariants: non-zero pivot, row-equivalence to the original system, exact final solution) for every non-singular integer matrix of the entry set; the same matrices and seeded random systems solved by dsolve / fdsolve for all three number kinds and validated by TLC through the residual postcondition in value, gradient and Hessian (normal equations in least-squares mode) and against a row-permuted solve",
   text="Exhaustive elimination paths (every pivot position, swap and no-swap) on the model; the real solvers are held to A x = b including every derivative carried by A and b, with pivoting forced by permutation-scrambled sparse systems and zero-valued entries that still carry derivatives.",
   note="Residual tolerance 1e-9 of the sum of absolute terms; sizes up to 8x8 and tall systems up to ~13x6; well-conditioned systems only."),
 "C14": dict(engine="spline", cat="model_checking", design="5/C14",
   technique="Declarative piecewise-polynomial basis (Cox-de Boor on polynomials) model-checked by TLC against the B-spline axioms on every knot multiplicity pattern and quarter point; bsplev_single_f64 / bspldnev_single_f64 evaluated on the same TLC-written knot vectors (every basis index, derivative order 0..k+1, sample point incl. knots and both end points) and on random real knots, every value validated by TLC; the Dual / Dual2 entry points of the basis functions validated by the chain rule on the piecewise polynomial (abscissae with their own curvature)",
   text="Exhaustive over orders 1..4 (6), interior multiplicities, basis indices, derivative orders and sample points including the right end point, where the derivative must be the left derivative.",
   note="Oracle evaluated in doubles in the monomial basis with term-sum scaling; integer-valued and random real knots."),
 "C15": dict(engine="spline", cat="model_checking", design="5/C15",
   technique="Recorded csolve + evaluations of PPSpline<f64/Dual/Dual2> validated by TLC: collocation rows (interpolation and end derivative conditions) recomputed from the logged coefficients with DualAlgebra, every evaluation = sum c_i D^m B_i(x) for the 3x3 spline-type x abscissa-type table (two cells must be refused), polynomial reproduction, unit-data sensitivities, mismatched counts rejected; the Python-facing spline classes (method family x abscissa-kind table with its TypeError cells, vector methods, read-back) validated by the same rules (PyOK); the object's life (SplineLife.tla: solve / refused solve / evaluate / copy / store-and-load) model-checked by TLC on every history of up to 4 calls and every history of up to 3 calls replayed on real objects of the three core types and the three Python-facing classes, validated call by call by a trace specification (coefficients bit-identical to a fresh solve, refusals inert)",
   text="Seeded scenarios over orders 2..6 and four site layouts (incl. natural / clamped cubic with asymmetric end conditions and least squares); the basis oracle is C14's model-checked definition.",
   note="Model part is C14's basis model (the solved-spline layer is validated, not exhaustively enumerated); simple interior knots."),
 "C16": dict(engine="persist", cat="model_checking", design="5/C16",
   technique="Save/load protocol as a TLC-checked state machine (Save, Mutate, Load, Resave over an abstract universe incl. the rebuild-on-load types; Load(Save(o)) = Canon(o), Canon idempotent, Save-Load-Save = Save); recorded round trips of every serialisable type x {JSON, tagged from_json, bincode} with random finite bit-pattern doubles validated by TLC: projection after = Canon(projection before) bit for bit, the library's == true, FX markets compared at order 1 with rates agreeing in any state; the pickle protocol (__new__(*__getnewargs__()) then __setstate__(__getstate__())) and the text of each class's Python to_json() run through the pymethods themselves; numbers over permuted name lists loaded back to back",
   text="The protocol (what is stored, what is rebuilt, at which order, which equality) is model-checked; the float-text path is sampled with random 64-bit patterns (subnormals, -0.0, 17-digit mantissas), which is what exposed the non-round-tripping JSON float parser (fixed).",
   note="Encode/decode fidelity of third-party parsers is sampled, not enumerated; NaN / infinities are outside the property."),
 "C20": dict(engine="persist", cat="fault_enumeration", design="5/C20",
   technique="Fault enumeration judged by TLC: every single mutation (delete, duplicate, retype, grow, array-header re-factorisation) of one valid tagged JSON document per type plus seeded double mutations (outcome must be Err, or Ok with Persist.tla's shape invariants and a usable object - never a panic), constructor argument grids against the specified outcome class, every NamedCal token string, and the calendar engine's date-arithmetic traces (i8 extremes, month offsets, roll days 1-31) validated for totality and value against Calendar.tla; MC_Persist model-checks that a validating Load maps every mutated document to Err or a well-shaped object",
   text="The faults are the enumerated malformed inputs; TLC decides each recorded outcome. Genuine defects found and repaired in /repo: add_days(-128), load-time panics, pivot-search panic, shape-violating documents accepted by derived Deserialize (see known_findings.txt).",
   note="A panic is observed through catch_unwind with an initialised interpreter; a hang is reported by a watchdog; double mutations are seeded, not enumerated."),
}

PENDING = {
 "C01": "check not built yet (NumVM/DualAlgebra engine in progress)",
 "C02": "check not built yet (NumVM/DualAlgebra engine in progress)",
 "C03": "check not built yet (NumVM engine in progress)",
 "C06": "check not built yet (NamedCal engine in progress)",
 "C07": "check not built yet (NamedCal engine in progress)",
 "C09": "check not built yet (FXRates engine in progress)",
 "C10": "check not built yet (FXRates engine in progress)",
 "C11": "check not built yet (Curve engine in progress)",
 "C12": "check not built yet (Curve engine in progress)",
 "C13": "check not built yet (Gauss engine in progress)",
 "C14": "check not built yet (BSpline engine in progress)",
 "C15": "check not built yet (BSpline engine in progress)",
 "C16": "check not built yet (Persist engine in progress)",
 "C17": "check not built yet (NumVM engine in progress)",
 "C18": "check not built yet (NumVM engine in progress)",
 "C19": "check not built yet (NumVM engine in progress)",
 "C20": "check not built yet (Persist engine in progress)",
}

ENGINES = [
 dict(name="cal", path="spec/Calendar.tla spec/DateArith.tla spec/MC_Calendar.tla spec/MC_Months.tla spec/apalache/AddMonthsInt.tla spec/Trace_Calendar.tla harness/src/cal.rs lib/checks_cal.py",
      serves_properties=["C04", "C05", "C08"], kind_free_text="TLA+ model checked by TLC + trace validation of the real crate's DateRoll calls"),
 dict(name="named", path="spec/NamedCal.tla spec/MC_NamedCal.tla spec/Trace_NamedCal.tla spec/Trace_Fixings.tla harness/src/named.rs lib/checks_named.py",
      serves_properties=["C06", "C07"], kind_free_text="TLA+ grammar/rule model checked by TLC + validation of recorded observations and fixing histories"),
 dict(name="fx", path="spec/FXRates.tla spec/MC_FXRates.tla spec/Trace_FX.tla harness/src/fx.rs lib/checks_fx.py",
      serves_properties=["C09", "C10"], kind_free_text="exact TLA+ state machine of the FX triangulation checked by TLC + history validation of real FXRates objects"),
 dict(name="curve", path="spec/Curve.tla spec/MC_Curve.tla spec/Gen_Curve.tla spec/Trace_Curve.tla harness/src/curve.rs lib/checks_curve.py",
      serves_properties=["C11", "C12"], kind_free_text="TLA+ model of interval selection and order switching checked by TLC + history validation of real curves"),
 dict(name="gauss", path="spec/Gauss.tla spec/MC_Gauss.tla spec/Trace_Gauss.tla spec/Linalg.tla spec/Trace_Linalg.tla harness/src/gauss.rs lib/checks_gauss.py",
      serves_properties=["C13"], kind_free_text="exact-rational TLA+ model of Gaussian elimination checked by TLC + residual validation of the real solvers"),
 dict(name="spline", path="spec/BSpline.tla spec/MC_BSpline.tla spec/Trace_BSpline.tla spec/SplineLife.tla spec/MC_SplineLife.tla spec/Gen_SplineLife.tla spec/Trace_SplineLife.tla harness/src/spline.rs lib/checks_spline.py",
      serves_properties=["C14", "C15"], kind_free_text="declarative piecewise-polynomial B-spline basis checked by TLC + validation of recorded basis values and solved splines"),
 dict(name="persist", path="spec/Persist.tla spec/MC_Persist.tla spec/Trace_Persist.tla harness/src/persist.rs lib/checks_persist.py",
      serves_properties=["C16", "C20"], kind_free_text="save/load protocol model checked by TLC + validation of recorded round trips, mutated-document loads and constructor grids"),
 dict(name="num", path="spec/FP.tla spec/java/FP.java spec/DualAlgebra.tla spec/NumVM.tla spec/MC_NumVM.tla spec/MC_Layout.tla spec/Gen_NumVM.tla spec/Trace_NumVM.tla harness/src/numvm.rs lib/checks_num.py",
      serves_properties=["C01", "C02", "C03", "C17", "C18", "C19"], kind_free_text="TLA+ register machine over by-name dual numbers; rules checked against finite differences by TLC; per-instruction trace validation"),
]


def main():
    hooks_commits = []
    try:
        import subprocess
        out = subprocess.run(["git", "-C", "/repo", "log", "--format=%H %s"], capture_output=True, text=True).stdout
        hooks_commits = [l.split()[0] for l in out.splitlines() if "verif hooks" in l]
    except Exception:
        pass
    m = {"version": 1,
         "setup_cmd": "bin/setup",
         "hooks": {"guard": "rateslib_verif (rustc --cfg)",
                   "enable": "harness/.cargo/config.toml sets rustflags = [\"--cfg\", \"rateslib_verif\"]; every check runs `cargo build --release --offline` in /verif/harness, which path-depends on /repo and therefore recompiles /repo's current working tree with the hooks on",
                   "baseline_off_cmd": BASELINE,
                   "source_commits": hooks_commits,
                   "add_only": True},
         "engines": ENGINES,
         "checks": [],
         "not_applicable": [{"property_id": k, "reason": v} for k, v in sorted(PENDING.items()) if k not in CHECKS],
         "notes": "All checks: TLA+ specification under /verif/spec checked by TLC (model checking) and bound to the crate by trace validation (harness records, TLC judges). See DESIGN.md."}
    for pid in sorted(CHECKS):
        c = CHECKS[pid]
        m["checks"].append({
            "property_id": pid,
            "quick_cmd": "bin/check %s quick" % pid,
            "thorough_cmd": "bin/check %s thorough" % pid,
            "evidence_file": "evidence/%s.json" % pid,
            "replay_cmd_template": "bin/check --replay {path}",
            "engine": c["engine"],
            "level_claimed": {"category": c["cat"], "text": c["text"], "design_ref": c["design"]},
            "level_note": c["note"],
            "technique": c["technique"]})
    with open(os.path.join(ROOT, "MANIFEST.json"), "w") as f:
        json.dump(m, f, indent=1)
        f.write("\n")


if __name__ == "__main__":
    main()
