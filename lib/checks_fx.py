"""C09 / C10 : FX markets (spec: FXRates, MC_FXRates, Trace_FX)."""
import json, os, time, copy
import vlib
from vlib import tlc, tlc_parallel, Verdicts, write_evidence


def coverage_summary(out):
    import re
    res = {}
    for m in re.finditer(r"^<(\w+) line \d+, col \d+ to line \d+, col \d+ of module (\w+)>: (\d+):(\d+)", out, re.M):
        res[m.group(1)] = int(m.group(4))
    return res


def validate(pid, traces, tag, V, shards=6):
    jobs, paths = [], []
    for ti, t in enumerate(traces):
        k = max(1, min(shards, vlib.count_lines(t) // 20))
        ps, _ = vlib.split_file(t, k, t + ".s")
        for p in ps:
            paths.append(p)
            jobs.append(dict(module="Trace_FX", env={"TRACE": p, "PROP": pid}, tag="%s-v%d" % (tag, len(paths)), cont=True, timeout=3000, xmx="3g"))
    rs = tlc_parallel(jobs)
    hist = steps = 0
    for p, r in zip(paths, rs):
        hist += vlib.count_lines(p)
        steps += r.get("distinct", 0)
        H = None
        for v in r["violations"]:
            if H is None:
                H = vlib.read_ndjson(p)
            st = v["state"]
            h = H[int(st["h"]) - 1]
            l = int(st.get("l", "1"))
            ev = h["ev"][max(0, l - 1)] if h["ev"] else {}
            why = st.get("why", "").strip('"')
            if v["name"] == "Deadlock":
                key = "fx/unconsumed-event/%s" % ev.get("op")
            elif v["name"] == "SpecConsistent":
                key = "model/SpecConsistent"
            else:
                key = "fx/%s/%s" % (why, ev.get("o"))
            small = {"history": h["key"], "step": l, "op": ev.get("op"), "outcome": ev.get("o"), "why": why,
                     "quotes": [(q["l"], q["r"], q.get("kind")) for q in ev.get("quotes", [])][:14], "order_before": st.get("order")}
            hcut = dict(h, ev=h["ev"][:l])
            V.add(key, "history %s rejected by FXRates.tla at step %d (%s): %s" % (h["key"], l, v["name"], json.dumps(small)), {"engine": "fx", "event": hcut}, src=p)
    return hist, steps


def binding_demo(pid, trace, d, tag):
    H = vlib.read_ndjson(trace)
    for h in H:
        if h["ev"] and h["ev"][0]["o"] == "ok" and len(h["ev"][0]["state"]["ccys"]) >= 3 and (pid == "C09" or len(h["ev"]) >= 2):
            good = copy.deepcopy(h)
            bad = copy.deepcopy(h)
            s = bad["ev"][0]["state"]
            if pid == "C09":
                s["re"][1][1] ^= 1 << 20          # flip a mantissa bit of one cross rate (relative change ~ 2e-10 .. 1e-3)
                s["re"][1][0] ^= 1 << 2
            else:
                n = len(s["ccys"])
                # swap two gradient entries of one rate (as if a sensitivity were reported under the wrong name)
                row = s["g"][1]
                nz = [i for i, x in enumerate(row) if x != [0, 0]]
                z = [i for i, x in enumerate(row) if x == [0, 0]]
                if not nz or not z:
                    continue
                row[nz[0]], row[z[0]] = row[z[0]], row[nz[0]]
            p = os.path.join(d, "corrupt.ndjson")
            with open(p, "w") as f:
                f.write(json.dumps(good) + "\n" + json.dumps(bad) + "\n")
            r = tlc("Trace_FX", env={"TRACE": p, "PROP": pid}, tag=tag + "-bind", cont=True, timeout=300)
            rej = [v for v in r["violations"] if v["name"] == "Accepted"]
            if not (len(rej) == 1 and rej[0]["state"].get("h") == "2"):
                raise vlib.ToolError("binding demonstration failed: %s" % r["violations"])
            return {"corrupted_history": bad["key"], "rejected_history_index": 2, "uncorrupted_accepted": True}
    raise vlib.ToolError("binding demonstration: no suitable history")


def run(pid, tier):
    t0 = time.time()
    vlib.build_java()
    vlib.build_harness()
    d = vlib.workdir(pid.lower())
    tag = pid.lower()
    V = Verdicts(pid)
    seed = vlib.seed()
    quick = tier == "quick"
    mc = tlc("MC_FXRates", cfg="MC_FXRates_quick" if quick else "MC_FXRates_thorough", tag=tag + "-mc", workers=8, xmx="8g", timeout=5000, coverage=True)
    live = tlc("MC_FXRates", cfg="MC_FXRates_live", tag=tag + "-live", workers=4, xmx="4g", timeout=3000)
    for r in (mc, live):
        for v in r["violations"]:
            V.add("model/" + v["name"], "MC_FXRates property %s violated: %s" % (v["name"], str(v["state"])[:500]), {"engine": "model", "state": str(v["state"])[:2000]})
    cases = os.path.join(d, "cases.ndjson")
    tlc("Gen_FXRates", cfg="Gen_FXRates_quick" if quick else "Gen_FXRates_thorough", env={"OUT": cases}, tag=tag + "-gen", timeout=900, xmx="4g")
    traces = []
    gen = os.path.join(d, "gen.ndjson")
    if vlib.record(V, ["fx", "replay", cases, "--seed", seed, "--out", gen]):
        traces.append(gen)
    rnd = os.path.join(d, "rnd.ndjson")
    if vlib.record(V, ["fx", "record", "--seed", seed, "--n", 300 if quick else 6000, "--out", rnd]):
        traces.append(rnd)
    rt = vlib.repo_test_traces()              # FX histories recorded from the repository's own tests
    if vlib.count_lines(rt["fx"]):
        traces.insert(0, rt["fx"])
    hist, steps = validate(pid, traces, tag, V, shards=6 if quick else 12)
    bind = binding_demo(pid, traces[-1], d, tag) if traces and not V.viol else {"skipped": "violations were found"}
    sample = []
    if traces:
        H = vlib.read_ndjson(traces[-1])[:40]
        for h in H:
            if len(h["ev"]) >= 3:
                sample.append({"history": h["key"], "ops": [{"op": e["op"], "o": e["o"], "quotes": [q["l"] + q["r"] for q in e.get("quotes", [])], "order": e.get("order")} for e in h["ev"]][:8]})
                break
    cov = dict(repo_test_events=rt["events"], states=mc["distinct"] + live.get("distinct", 0), transitions=mc["generated"] + live.get("generated", 0), depth=mc.get("depth"),
               action_coverage=coverage_summary(mc["out"]), liveness_checked="AlwaysResolves under WF(SolveStep)",
               traces_validated_against_impl=hist, evaluations=steps, distinct_nontrivial=hist,
               rule="one trace = one history of a real FXRates object (construction then up to 12 update / refused-update / set_ad_order operations), validated step by step; generated family = every quote sequence of the model (all bases, consistent and mixed settlement) with seeded rates spanning 1e-3..1e3, random family = chains, stars, caterpillars and random trees on 2..12 currencies, random orientation / order / base, 20% of quotes supplied as dual numbers with their own variables, plus degenerate sets; one re-quote in four repeats the present value and one in four changes the kind of the quote (plain number <-> first-order number on the pair's variable with a zero or non-unit sensitivity)",
               exhaustive=False, binding_demo=bind, samples=sample)
    assumptions = ["rates are compared to 1e-9 relative (+1e-12) against products recomputed by TLC in IEEE double arithmetic (FP.java supplies + - * / only)",
                   "bit-identity of values across derivative orders is not demanded (reciprocals are powf(x,-1), 1 ulp differences observed); quoted pairs and the diagonal are compared bit for bit",
                   "update resetting the derivative order to 1 is modelled as the code does it, not judged",
                   "Hessians are validated for all pairs of markets up to 4 currencies and for a fixed probe subset of larger ones"]
    rc = V.finish()
    write_evidence(pid, tier, "model_checking", cov, assumptions, time.time() - t0, len(V.viol))
    vlib.clean_tmp()
    return rc
