"""Plumbing shared by every check: build, run TLC, run the harness, route verdicts, write evidence.

Nothing in this file decides a property.  TLC evaluates the TLA+ specifications under /verif/spec and
reports invariant violations; this module starts the tools, splits trace files into shards, maps TLC's
reports to the VIOLATION / KNOWN-FINDING lines of the interface and records what was covered.
"""
import json, os, re, shutil, subprocess, sys, time, hashlib, glob
from concurrent.futures import ThreadPoolExecutor

ROOT = os.path.dirname(os.path.dirname(os.path.abspath(__file__)))
SPEC = os.path.join(ROOT, "spec")
# Development aid (never set by the registered commands): evaluate seeded changes against a scratch worktree of
# /repo, with a private work / evidence directory, while /repo itself stays untouched.
REPO = os.environ.get("VERIF_REPO_OVERRIDE", "/repo")
WORK = os.environ.get("VERIF_WORK_OVERRIDE", os.path.join(ROOT, "work"))
HARNESS = os.path.join(ROOT, "harness")
EVID = os.path.join(ROOT, "evidence") if "VERIF_WORK_OVERRIDE" not in os.environ else os.path.join(WORK, "evidence")
TLAJAR = "/opt/veriftools/tla/tla2tools.jar"
CMJAR = "/opt/veriftools/tla/CommunityModules-deps.jar"
JAVADIR = os.path.join(SPEC, "java")
CP = ":".join([TLAJAR, CMJAR, JAVADIR])
NCPU = os.cpu_count() or 4


class ToolError(Exception):
    pass


def log(*a):
    print(*a, file=sys.stderr, flush=True)


def seed():
    try:
        return int(os.environ.get("VERIF_SEED", "20260926"))
    except ValueError:
        return 20260926


def ensure_dirs():
    for d in (WORK, EVID, os.path.join(WORK, "tmp"), os.path.join(WORK, "replay")):
        os.makedirs(d, exist_ok=True)


CREATED = []    # scratch directories made by THIS process (another check may be running next to it in the same work/)


def workdir(name):
    d = os.path.join(WORK, name)
    shutil.rmtree(d, ignore_errors=True)
    os.makedirs(d, exist_ok=True)
    CREATED.append(d)
    return d


# ------------------------------------------------------------------------------------------------ build
def build_java():
    src = os.path.join(JAVADIR, "FP.java")
    cls = os.path.join(JAVADIR, "FP.class")
    if (not os.path.exists(cls)) or os.path.getmtime(cls) < os.path.getmtime(src):
        r = subprocess.run(["javac", "-nowarn", "-cp", TLAJAR, "-d", JAVADIR, src], capture_output=True, text=True)
        if r.returncode != 0:
            raise ToolError("javac failed:\n" + r.stdout + r.stderr)


_PYENV = None


def py_env():
    """pyo3 links the harness against the `python3` found first on PATH; the same interpreter's library directory is put
    on the loader path for build and run (nothing else is changed, so cargo sees the same build environment as bin/setup), so that a shell profile which re-orders PATH (conda) cannot leave the harness
    unable to start (a tool error, never a verdict)."""
    global _PYENV
    if _PYENV is None:
        _PYENV = {}
        try:
            r = subprocess.run(["python3", "-c", "import sys, sysconfig; print(sys.executable); print(sysconfig.get_config_var('LIBDIR') or '')"],
                               capture_output=True, text=True, timeout=60)
            exe, libdir = (r.stdout.strip().splitlines() + ["", ""])[:2]
            if libdir:
                _PYENV["LD_LIBRARY_PATH"] = libdir + (":" + os.environ["LD_LIBRARY_PATH"] if os.environ.get("LD_LIBRARY_PATH") else "")
        except Exception:
            pass
    return _PYENV


def build_harness():
    """cargo build --release of the harness; it path-depends on /repo so this always compiles /repo's current tree."""
    env = dict(os.environ, CARGO_NET_OFFLINE="true", **py_env())
    t0 = time.time()
    hdir = harness_dir()
    r = subprocess.run(["cargo", "build", "--release", "--offline"], cwd=hdir, env=env, capture_output=True, text=True)
    if r.returncode != 0:
        raise ToolError("harness build failed (this is a tool error, not a verdict):\n" + r.stderr[-6000:])
    log("[build] harness built in %.1fs" % (time.time() - t0))
    return os.path.join(hdir, "target", "release", "vharness")


def harness_dir():
    if REPO == "/repo":
        return HARNESS
    # private copy of the harness sources pointing at the scratch worktree
    alt = os.path.join(WORK, "harness-alt")
    os.makedirs(alt, exist_ok=True)
    for name in ("src", ".cargo"):
        shutil.rmtree(os.path.join(alt, name), ignore_errors=True)
        shutil.copytree(os.path.join(HARNESS, name), os.path.join(alt, name))
    shutil.copy(os.path.join(HARNESS, "Cargo.lock"), alt)
    txt = open(os.path.join(HARNESS, "Cargo.toml")).read().replace('path = "/repo"', 'path = "%s"' % REPO)
    with open(os.path.join(alt, "Cargo.toml"), "w") as f:
        f.write(txt)
    return alt


class HarnessHang(Exception):
    """a call into the crate did not return within the harness watchdog's limit (data, like a panic)"""

    def __init__(self, info):
        Exception.__init__(self, str(info))
        self.info = info


def run_harness(args, timeout=3600, stdin=None):
    exe = os.path.join(HARNESS if REPO == "/repo" else os.path.join(WORK, "harness-alt"), "target", "release", "vharness")
    r = subprocess.run([exe] + [str(a) for a in args], capture_output=True, text=True, timeout=timeout, input=stdin,
                       env=dict(os.environ, VERIF_REPO_DIR=REPO, **py_env()))
    if r.returncode == 3:
        for a in args:
            hp = str(a) + ".hang"
            if os.path.exists(hp):
                raise HarnessHang(json.loads(open(hp).read()))
        raise HarnessHang({"op": "hang", "key": "unknown"})
    if r.returncode != 0:
        raise ToolError("harness %s failed rc=%s:\n%s" % (args, r.returncode, r.stderr[-4000:]))
    return r.stdout


# ------------------------------------------------------------------------------------------------ TLC
STATE_RE = re.compile(r"^(\d+) states generated, (\d+) distinct states found, (\d+) states left on queue", re.M)
DEPTH_RE = re.compile(r"The depth of the complete state graph search is (\d+)")
INITGEN_RE = re.compile(r"Finished computing initial states: (\d+) distinct state")


def tlc(module, cfg=None, env=None, workers=1, xmx="2g", timeout=1800, tag=None, extra=None, cwd=SPEC,
        deque=False, cont=False, coverage=False, simulate=None, depth=None, seed_=None):
    """Run TLC on spec/<module>.tla.  Returns dict(out, rc, generated, distinct, depth, violations=[...])."""
    ensure_dirs()
    tag = tag or module
    meta = workdir("tlc-" + tag)
    tmpd = os.path.join(meta, "tmp")
    os.makedirs(tmpd, exist_ok=True)
    # Touching fresh memory is very expensive in this VM when several JVMs do it at once (measured: 12 JVMs
    # 18 s each with the default 1 GB initial heap, 4 s with a small, re-used young generation).
    jopts = ["-Xss1g", "-Xms256m", "-Xmn96m", "-Xmx" + xmx, "-XX:+UseSerialGC" if workers == 1 else "-XX:+UseParallelGC",
             "-Djava.io.tmpdir=" + tmpd]
    if workers == 1:
        # many single-worker JVMs run side by side: keep each one's JIT / housekeeping threads small
        jopts.append("-XX:ActiveProcessorCount=2")
    if workers > 1:
        jopts.append("-XX:ParallelGCThreads=%d" % min(4, workers))
    if deque:
        jopts.append("-Dtlc2.tool.queue.IStateQueue=StateDeque")
    cmd = ["java"] + jopts + ["-cp", CP, "tlc2.TLC", "-workers", str(workers), "-metadir", os.path.join(meta, "states"),
                              "-cleanup", "-noGenerateSpecTE", "-config", (cfg or module) + ".cfg"]
    if cont:
        cmd.append("-continue")
    if coverage:
        cmd += ["-coverage", "1"]
    if simulate:
        cmd += ["-simulate", "num=%d" % simulate]
        if depth:
            cmd += ["-depth", str(depth)]
    if seed_ is not None:
        cmd += ["-seed", str(seed_)]
    if extra:
        cmd += extra
    cmd.append(module + ".tla")
    e = dict(os.environ)
    e.pop("JAVA_TOOL_OPTIONS", None)
    if env:
        e.update({k: str(v) for k, v in env.items()})
    t0 = time.time()
    try:
        r = subprocess.run(cmd, cwd=cwd, env=e, capture_output=True, text=True, timeout=timeout)
    except subprocess.TimeoutExpired as ex:
        shutil.rmtree(meta, ignore_errors=True)
        raise ToolError("TLC timeout after %ss on %s" % (timeout, tag))
    out = r.stdout + r.stderr
    res = {"out": out, "rc": r.returncode, "wall": time.time() - t0, "tag": tag}
    m = STATE_RE.findall(out)
    if m:
        res["generated"], res["distinct"] = int(m[-1][0]), int(m[-1][1])
    m = DEPTH_RE.search(out)
    if m:
        res["depth"] = int(m.group(1))
    m = INITGEN_RE.search(out)
    if m:
        res["init"] = int(m.group(1))
    res["violations"] = parse_violations(out)
    res["prints"] = parse_prints(out)
    with open(os.path.join(WORK, "tlc-" + tag + ".log"), "w") as f:
        f.write(" ".join(cmd) + "\n" + out)
    shutil.rmtree(meta, ignore_errors=True)
    fatal = None
    if "Error:" in out or r.returncode not in (0,):
        # distinguish property violations (rc 12/13, "is violated") from tool errors
        hard = [l for l in out.splitlines() if l.startswith("Error:") and "is violated" not in l
                and "The behavior up to this point" not in l and "violated" not in l]
        if hard and not res["violations"]:
            fatal = "\n".join(hard[:5])
        elif hard and any(("evaluat" in h or "Exception" in h or "not enabled" in h or "Attempted" in h) for h in hard):
            fatal = "\n".join(hard[:5])
    if fatal is not None:
        tail = out[-3000:]
        raise ToolError("TLC failed on %s: %s\n---- tail ----\n%s" % (tag, fatal, tail))
    if "generated" not in res and not simulate and "Finished in" not in out:
        raise ToolError("TLC produced no statistics on %s:\n%s" % (tag, out[-3000:]))
    return res


VIOL_RE = re.compile(r"Error: (Invariant|Action property|Temporal properties|Postcondition|Deadlock)\s*(\S*)")


def _conj(txt):
    last = {}
    for part in re.split(r"^/\\ ", txt, flags=re.M):
        if " = " in part:
            k, v = part.split(" = ", 1)
            last[k.strip()] = " ".join(v.split())
    return last


def parse_violations(out):
    """Return list of dicts: name, state (var -> text, of the LAST state of the counterexample), nstates."""
    res = []
    lines = out.splitlines()
    i = 0
    n = len(lines)
    while i < n:
        ln = lines[i]
        m_init = re.match(r"Error: Invariant (\S+) is violated by the initial state:", ln)
        m_inv = re.match(r"Error: (?:Invariant|Action property) (\S+) is violated", ln)
        m_tmp = re.match(r"Error: Temporal properties were violated", ln)
        m_dead = re.match(r"Error: Deadlock reached", ln)
        if m_init:
            j = i + 1
            buf = []
            while j < n and lines[j].strip() != "":
                buf.append(lines[j])
                j += 1
            res.append({"name": m_init.group(1), "state": _conj("\n".join(buf)), "nstates": 1})
            i = j
            continue
        if m_inv or m_tmp or m_dead:
            name = m_inv.group(1) if m_inv else ("Temporal" if m_tmp else "Deadlock")
            j = i + 1
            states = []
            cur = None
            while j < n:
                l2 = lines[j]
                if l2.startswith("Error:") and not l2.startswith("Error: The behavior up to") \
                        and not l2.startswith("Error: The following behavior"):
                    break
                if re.match(r"State \d+:", l2):
                    cur = []
                    states.append(cur)
                elif cur is not None:
                    if l2.strip() == "":
                        cur = None
                    else:
                        cur.append(l2)
                if re.match(r"^\d+ states generated", l2) or l2.startswith("Finished in") or l2.startswith("Progress("):
                    break
                j += 1
            res.append({"name": name, "state": _conj("\n".join(states[-1])) if states else {}, "nstates": len(states)})
            i = j
            continue
        i += 1
    return res


def parse_prints(out):
    """PrintT(<<"TAG", ...>>) lines -> list of raw strings starting with <<"""
    return [l for l in out.splitlines() if l.startswith("<<\"")]


def print_fields(line):
    """very small parser for PrintT tuples of strings/ints: <<"A", 1, "b">> -> ["A", 1, "b"]"""
    body = line.strip()[2:-2]
    out = []
    for tok in re.findall(r'"((?:[^"\\]|\\.)*)"|(-?\d+)|(TRUE|FALSE)', body):
        if tok[1] != "":
            out.append(int(tok[1]))
        elif tok[2] != "":
            out.append(tok[2] == "TRUE")
        else:
            out.append(tok[0])
    return out


def tlc_parallel(jobs, maxpar=None):
    """jobs: list of kwargs dicts for tlc(). Runs them in parallel processes; returns results in order."""
    maxpar = maxpar or max(1, min(NCPU - 2, len(jobs)))
    with ThreadPoolExecutor(max_workers=maxpar) as ex:
        futs = [ex.submit(lambda kw=kw: tlc(**kw)) for kw in jobs]
        return [f.result() for f in futs]


def split_file(path, nshards, prefix):
    """split an ndjson file round-robin into nshards files; return paths (plumbing only)."""
    outs = [open("%s.%d.ndjson" % (prefix, k), "w") for k in range(nshards)]
    n = 0
    with open(path) as f:
        for ln in f:
            if ln.strip():
                outs[n % nshards].write(ln)
                n += 1
    for o in outs:
        o.close()
    paths = ["%s.%d.ndjson" % (prefix, k) for k in range(nshards)]
    return [p for p in paths if os.path.getsize(p) > 0], n


def read_ndjson(path):
    with open(path) as f:
        return [json.loads(l) for l in f if l.strip()]


def count_lines(path):
    n = 0
    with open(path) as f:
        for l in f:
            if l.strip():
                n += 1
    return n


# ------------------------------------------------------------------------------------------------ verdict routing
def load_known():
    """known_findings.txt lines: 'known: property=<id> key=<key> <text>' or 'fixed: property=<id> <commit> <text>'."""
    known = {}
    p = os.path.join(ROOT, "known_findings.txt")
    if os.path.exists(p):
        for ln in open(p):
            ln = ln.strip()
            m = re.match(r"known:\s+property=(\S+)\s+key=(\S+)\s*(.*)", ln)
            if m:
                known.setdefault(m.group(1), {})[m.group(2)] = m.group(3)
    return known


class Verdicts:
    """Collects TLC-reported violations for one property and prints the interface lines."""

    def __init__(self, pid):
        self.pid = pid
        self.known = load_known().get(pid, {})
        self.viol = []      # (key, replay_path, text)
        self.known_hits = {}

    def add(self, key, text, replay_obj, src=None):
        """key: stable identifier of the failing input/call-site as produced by the spec/harness.
        src: path of the trace (shard) the rejected event came from; its producing harness command is stored so
        that `bin/check --replay` can re-execute the same calls on the current tree."""
        if src is not None and isinstance(replay_obj, dict) and source_of(src):
            replay_obj = dict(replay_obj, harness_args=source_of(src))
        for k in self.known:
            if key == k or key.startswith(k + "/") or re.fullmatch(k.replace("*", ".*"), key):
                self.known_hits.setdefault(k, 0)
                self.known_hits[k] += 1
                return
        ensure_dirs()
        h = hashlib.sha1((self.pid + key + json.dumps(replay_obj, sort_keys=True)).encode()).hexdigest()[:12]
        path = os.path.join(WORK, "replay", "%s-%s.json" % (self.pid, h))
        with open(path, "w") as f:
            json.dump({"property": self.pid, "key": key, "text": text, "case": replay_obj}, f)
        self.viol.append((key, path, text))

    def finish(self):
        for k, n in sorted(self.known_hits.items()):
            print("KNOWN-FINDING: property=%s %s [%s] (%d occurrence(s))" % (self.pid, self.known[k], k, n))
        seen = set()
        for key, path, text in self.viol[:20]:
            if key in seen:
                continue
            seen.add(key)
            print("VIOLATION property=%s replay=%s" % (self.pid, path))
            print("  key=%s %s" % (key, text))
        sys.stdout.flush()
        return 1 if self.viol else 0


SOURCES = {}      # trace path -> harness arguments that produced it (so that a replay can re-execute the calls)


def source_of(path):
    """harness arguments that produced the trace a shard was split from (plumbing)"""
    base = re.sub(r"\.s\.\d+\.ndjson$", "", path)
    return SOURCES.get(base, SOURCES.get(path))


def record(V, args, timeout=3600):
    """run a harness recording; a hang of the code under test becomes a reported violation. Returns True if a trace was written."""
    try:
        run_harness(args, timeout=timeout)
        for a in args:
            if str(a).endswith(".ndjson"):
                SOURCES[str(a)] = [str(x) for x in args]
        return True
    except HarnessHang as h:
        V.add("hang/%s/%s" % (args[0], args[1]), "a call into the crate did not return within the watchdog limit: %s" % h.info,
              {"engine": "hang", "harness_args": [str(a) for a in args], "info": h.info})
        return False


def repo_test_traces():
    """Run the repository's OWN unit tests with the hooks on and RATESLIB_VERIF_TRACE set; every outermost DateRoll /
    FXRates call they make is recorded. Returns paths of the calendar and FX traces (split by event type: plumbing)."""
    ensure_dirs()
    tdir = os.path.join(WORK, "repotests-target")
    raw = os.path.join(WORK, "repotests-%d.ndjson" % os.getpid())
    if os.path.exists(raw):
        os.remove(raw)
    env = dict(os.environ, CARGO_NET_OFFLINE="true", RUSTFLAGS="--cfg rateslib_verif", RATESLIB_VERIF_TRACE=raw, **py_env())
    t0 = time.time()
    r = subprocess.run(["cargo", "test", "--offline", "--lib", "--manifest-path", os.path.join(REPO, "Cargo.toml"), "--target-dir", tdir, "--", "--test-threads", "4"],
                       env=env, capture_output=True, text=True, timeout=3000)
    if "error: could not compile" in r.stderr or "error[E" in r.stderr:
        raise ToolError("the repository's tests do not build with the hooks on:\n" + r.stderr[-3000:])
    log("[repo tests] traced run in %.1fs" % (time.time() - t0))
    cal = raw + ".cal"
    fx = raw + ".fx"
    curve = raw + ".curve"
    spline = raw + ".spline"
    n = 0
    with open(cal, "w") as fc, open(fx, "w") as ff, open(curve, "w") as fcu, open(spline, "w") as fsp:
        if os.path.exists(raw):
            for ln in open(raw):
                if not ln.strip():
                    continue
                n += 1
                (fc if '"op":"cal"' in ln else fcu if '"op":"curve"' in ln else fsp if '"op":"basis1"' in ln else ff).write(ln)
    return {"cal": cal, "fx": fx, "curve": curve, "spline": spline, "events": n}


def write_evidence(pid, tier, level, coverage, assumptions, wall, violations):
    ensure_dirs()
    ev = {"property_id": pid, "tier": tier, "seed": seed(), "level": level, "coverage": coverage,
          "assumptions": assumptions, "wall_s": round(wall, 2), "violations": violations}
    with open(os.path.join(EVID, pid + ".json"), "w") as f:
        json.dump(ev, f, indent=1, sort_keys=True)
        f.write("\n")


def clean_tmp():
    """Remove the TLC scratch directories this process created (never another running check's)."""
    for d in CREATED:
        if os.path.basename(d).startswith("tlc-") and os.path.isdir(d):
            shutil.rmtree(d, ignore_errors=True)
