"""C13 : linear solver (spec: Gauss, MC_Gauss, Trace_Gauss)."""
import json, os, time, copy, re
import vlib
from vlib import tlc, tlc_parallel, Verdicts, write_evidence


def coverage_summary(out):
    res = {}
    for m in re.finditer(r"^<(\w+) line \d+, col \d+ to line \d+, col \d+ of module (\w+)>: (\d+):(\d+)", out, re.M):
        res[m.group(1)] = int(m.group(4))
    return res


def run(pid, tier):
    t0 = time.time()
    vlib.build_java()
    vlib.build_harness()
    d = vlib.workdir(pid.lower())
    tag = pid.lower()
    V = Verdicts(pid)
    seed = vlib.seed()
    quick = tier == "quick"
    mcs = [dict(module="MC_Gauss", cfg="MC_Gauss_q3" if quick else "MC_Gauss_t3", tag=tag + "-mc3", workers=6 if quick else 12, xmx="6g" if quick else "16g", timeout=7000, coverage=quick),
           dict(module="MC_Gauss", cfg="MC_Gauss_q2", tag=tag + "-mc2", workers=2, xmx="2g", timeout=1800)]
    rs = tlc_parallel(mcs, maxpar=2)
    for r in rs:
        for v in r["violations"]:
            V.add("model/" + v["name"], "MC_Gauss invariant %s violated: %s" % (v["name"], str(v["state"])[:500]), {"engine": "model", "state": str(v["state"])[:2000]})
    traces = []
    for cfg in ("q2", "q3"):
        cases = os.path.join(d, cfg + ".cases")
        tlc("Gen_Gauss", cfg="Gen_Gauss_" + cfg, env={"OUT": cases}, tag="%s-gen-%s" % (tag, cfg), timeout=1800, xmx="6g")
        out = os.path.join(d, cfg + ".ndjson")
        if vlib.record(V, ["gauss", "replay", cases, "--seed", seed, "--out", out]):
            traces.append(out)
    rnd = os.path.join(d, "rnd.ndjson")
    if vlib.record(V, ["gauss", "record", "--seed", seed, "--n", 600 if quick else 12000, "--out", rnd]):
        traces.append(rnd)
    jobs, paths = [], []
    for t in traces:
        k = max(1, min(10 if quick else 14, vlib.count_lines(t) // 200))
        ps, _ = vlib.split_file(t, k, t + ".s")
        for p in ps:
            paths.append(p)
            jobs.append(dict(module="Trace_Gauss", env={"TRACE": p}, tag="%s-v%d" % (tag, len(paths)), cont=True, timeout=3000, xmx="3g"))
    vr = tlc_parallel(jobs)
    events = 0
    for p, r in zip(paths, vr):
        events += r.get("distinct", 0)
        E = None
        for v in r["violations"]:
            if E is None:
                E = vlib.read_ndjson(p)
            e = E[int(v["state"]["i"]) - 1]
            key = "gauss/%s/%s/%s%s" % (e["fn"], e["kind"], "%dx%d" % (len(e["A"]), len(e["A"][0])), "/lsq" if e["lsq"] else "")
            V.add(key, "solve %s (%s, kind %s, %dx%d, lsq=%s, outcome %s): solution rejected by SolveObs / PermObs" % (e["key"], e["fn"], e["kind"], len(e["A"]), len(e["A"][0]), e["lsq"], e["o"]),
                  {"engine": "gauss", "event": e}, src=p)
    # growth beyond the listed property: the tensor products the solver's least-squares mode is built on
    prod = os.path.join(d, "products.ndjson")
    nprod = 0
    if vlib.record(V, ["gauss", "products", "--seed", seed, "--n", 300 if quick else 5000, "--out", prod]):
        ps, _ = vlib.split_file(prod, 2 if quick else 10, prod + ".s")
        prs = tlc_parallel([dict(module="Trace_Linalg", env={"TRACE": q}, tag="%s-lin%d" % (tag, k), cont=True, timeout=3000) for k, q in enumerate(ps)])
        for q, r in zip(ps, prs):
            nprod += r.get("distinct", 0)
            E = None
            for v in r["violations"]:
                if E is None:
                    E = vlib.read_ndjson(q)
                e = E[int(v["state"]["i"]) - 1]
                V.add("linalg/products/%s" % e["kind"], "tensor products %s (kind %s): a recorded result is not the product Linalg.tla defines" % (e["key"], e["kind"]),
                      {"engine": "gauss", "module": "Trace_Linalg", "event": e}, src=q)
    bind = {"skipped": "violations were found"}
    if traces and not V.viol:
        E = vlib.read_ndjson(traces[-1])
        for e in E:
            if e["o"] == "ok" and e["kind"] == "D1" and len(e["x"]) >= 2 and e["x"][0].get("d"):
                bad = copy.deepcopy(e)
                nz = [i for i, x in enumerate(bad["x"][0]["d"]) if x != [0, 0]]
                if not nz:
                    continue
                bad["x"][0]["d"][nz[0]][0] ^= 1 << 16
                p = os.path.join(d, "corrupt.ndjson")
                with open(p, "w") as f:
                    f.write(json.dumps(e) + "\n" + json.dumps(bad) + "\n")
                r = tlc("Trace_Gauss", env={"TRACE": p}, tag=tag + "-bind", cont=True, timeout=300)
                rej = [v for v in r["violations"] if v["name"] == "Accepted"]
                if not (len(rej) == 1 and rej[0]["state"].get("i") == "2"):
                    raise vlib.ToolError("binding demonstration failed: %s" % r["violations"])
                bind = {"corrupted_event": bad["key"], "rejected_event_index": 2, "uncorrupted_accepted": True}
                break
    sample = []
    if traces:
        e = vlib.read_ndjson(traces[-1])[0]
        sample = [{"key": e["key"], "fn": e["fn"], "kind": e["kind"], "shape": [len(e["A"]), len(e["A"][0])], "lsq": e["lsq"], "perm": e["perm"]}]
    cov = dict(states=sum(r.get("distinct", 0) for r in rs), transitions=sum(r.get("generated", 0) for r in rs), action_coverage=coverage_summary(rs[0]["out"]),
               traces_validated_against_impl=events, evaluations=events, distinct_nontrivial=events, tensor_product_events=nprod,
               rule="model: every non-singular N x N integer matrix over the entry set, elimination explored action by action on exact rationals; traces: the same matrices through dsolve (f64 / Dual / Dual2 entries tagged with random variable subsets) and fdsolve (float matrix, f64 / Dual / Dual2 right-hand side), seeded random square systems 1..8 (permutation-scrambled, sparse, so that pivoting is forced) and tall least-squares systems, each also solved after a random row permutation",
               exhaustive=False, binding_demo=bind, samples=sample)
    assumptions = ["residuals are compared with zero against 1e-9 of the sum of absolute values of their terms (+1e-12); permuted solutions to 1e-7 relative (generated systems are well conditioned)",
                   "systems above 8x8 (12x6 least squares) are not explored; singular systems are outside this property (their totality is C20's)"]
    rc = V.finish()
    write_evidence(pid, tier, "model_checking", cov, assumptions, time.time() - t0, len(V.viol))
    vlib.clean_tmp()
    return rc
