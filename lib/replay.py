"""bin/check --replay <path>: re-judge a recorded violation (the saved event is re-validated by TLC against the
specification that rejected it; for engines with a reconstruction recipe the harness first re-executes the call)."""
import json, os, sys
import vlib

TRACE_MODULE = {"cal": "Trace_Calendar", "named": "Trace_NamedCal", "fx": "Trace_FX", "num": "Trace_NumVM", "curve": "Trace_Curve", "gauss": "Trace_Gauss", "spline": "Trace_BSpline", "persist": "Trace_Persist"}


def run(path):
    rec = json.load(open(path))
    pid = rec["property"]
    case = rec["case"]
    eng = case.get("engine")
    if eng == "model":
        print("model-level violation (no implementation trace): %s" % json.dumps(case))
        print("VIOLATION property=%s replay=%s" % (pid, path))
        return 1
    if eng == "hang":
        vlib.build_harness()
        try:
            vlib.run_harness(case["harness_args"])
        except vlib.HarnessHang as h:
            print("still hangs: %s" % h.info)
            print("VIOLATION property=%s replay=%s" % (pid, path))
            return 1
        print("recording now terminates")
        return 0
    vlib.build_java()
    d = vlib.workdir("replay-run")
    ev = case["event"]
    fresh = None
    if case.get("harness_args") and eng != "hang":
        # re-execute the recording on the CURRENT tree and pick the event with the same key
        vlib.build_harness()
        args = list(case["harness_args"])
        out = os.path.join(d, "rerun.ndjson")
        old_out = [a for a in args if a.endswith(".ndjson")][-1]
        args = [out if a == old_out else a for a in args]
        try:
            vlib.run_harness(args)
            for e in vlib.read_ndjson(out):
                if e.get("key") == ev.get("key"):
                    fresh = e
                    break
        except Exception as ex:        # missing case file, hang ...: fall back to the recorded event
            print("re-execution not possible (%s); re-judging the recorded event" % ex)
    if fresh is not None:
        print("re-executed %s on the current tree" % ev.get("key"))
        # histories / programs were cut at the rejected step when recorded; cut the fresh one alike
        for fld in ("ev", "steps"):
            if fld in ev and fld in fresh and isinstance(ev[fld], list):
                fresh[fld] = fresh[fld][:len(ev[fld])]
        if "q" in ev and "q" in fresh and len(ev["q"]) == 1:
            want = {k: ev["q"][0].get(k) for k in ("f", "d", "m", "s", "n", "a", "b", "mo", "roll", "y")}
            fresh["q"] = [q for q in fresh["q"] if all(q.get(k) == v for k, v in want.items() if v is not None)][:1] or fresh["q"]
        ev = fresh
    if case.get("recipe") is not None:
        vlib.build_harness()
        inp = os.path.join(d, "in.json")
        json.dump(case, open(inp, "w"))
        out = os.path.join(d, "out.ndjson")
        vlib.run_harness([eng, "one", inp, out])
        evs = vlib.read_ndjson(out)
    else:
        evs = [ev]
    p = os.path.join(d, "trace.ndjson")
    with open(p, "w") as f:
        for e in evs:
            f.write(json.dumps(e) + "\n")
    module = TRACE_MODULE[eng] if "module" not in case else case["module"]
    env = {"TRACE": p, "PROP": pid}
    env.update(case.get("env", {}))
    r = vlib.tlc(module, cfg=case.get("cfg"), env=env, tag="replay", cont=True, timeout=600)
    bad = [v for v in r["violations"]]
    if bad:
        print("replayed event still rejected: %s" % bad[0])
        print("VIOLATION property=%s replay=%s" % (pid, path))
        return 1
    print("replayed event accepted")
    return 0
