"""C11 / C12 : curves (spec: Curve, MC_Curve, Gen_Curve, Trace_Curve)."""
import json, os, time, copy, re
import vlib
from vlib import tlc, tlc_parallel, Verdicts, write_evidence


def coverage_summary(out):
    res = {}
    for m in re.finditer(r"^<(\w+) line \d+, col \d+ to line \d+, col \d+ of module (\w+)>: (\d+):(\d+)", out, re.M):
        res[m.group(1)] = int(m.group(4))
    return res


def validate(pid, traces, tag, V, shards=8):
    jobs, paths = [], []
    for t in traces:
        k = max(1, min(shards, vlib.count_lines(t) // 25))
        ps, _ = vlib.split_file(t, k, t + ".s")
        for p in ps:
            paths.append(p)
            jobs.append(dict(module="Trace_Curve", env={"TRACE": p, "PROP": pid}, tag="%s-v%d" % (tag, len(paths)), cont=True, timeout=3000, xmx="3g"))
    rs = tlc_parallel(jobs)
    hist = steps = 0
    for p, r in zip(paths, rs):
        hist += vlib.count_lines(p)
        steps += max(0, r.get("distinct", 0) - vlib.count_lines(p))
        H = None
        for v in r["violations"]:
            if H is None:
                H = vlib.read_ndjson(p)
            st = v["state"]
            h = H[int(st["h"]) - 1]
            l = max(1, int(st.get("l", "1")))
            ev = h["ev"][l - 1]
            first = h["ev"][0]
            if first.get("op") == "given":
                first = dict(first, via="repotest", ad=first["state"]["ad"], nodes=first["state"]["nodes"])
            why = st.get("why", "").strip('"')
            if v["name"] == "Deadlock":
                key = "curve/unconsumed-event/%s" % ev.get("op")
            elif ev["op"] == "index_left":
                key = "curve/index_left"
            else:
                key = "curve/%s/%s/%s/%s" % (why.split(":")[0], first.get("rule"), first.get("via"), ev.get("order", first.get("ad")))
            small = {"history": h["key"], "step": l, "op": ev["op"], "rule": first.get("rule"), "via": first.get("via"), "ad": first.get("ad"), "order": ev.get("order"),
                     "nodes": [(n["d"], n["v"]["k"]) for n in first.get("nodes", [])][:8]}
            V.add(key, "history %s rejected by Curve.tla at step %d (%s): %s" % (h["key"], l, v["name"], json.dumps(small)), {"engine": "curve", "event": dict(h, ev=h["ev"][:l])}, src=p)
    return hist, steps


def binding_demo(pid, trace, d, tag):
    H = vlib.read_ndjson(trace)
    for h in H:
        e = h["ev"][0]
        if e["op"] == "new" and e["o"] == "ok" and len(e["state"]["q"]) > 4 and (pid == "C11" or (e["state"]["ad"] >= 1)):
            good = copy.deepcopy(dict(h, ev=h["ev"][:1]))
            bad = copy.deepcopy(good)
            q = bad["ev"][0]["state"]["q"][3]
            if pid == "C11":
                q["val"]["re"][0] ^= 1 << 12
            else:
                if not q["val"].get("d"):
                    continue
                nz = [i for i, x in enumerate(q["val"]["d"]) if x != [0, 0]]
                if not nz:
                    continue
                q["val"]["d"][nz[0]][0] ^= 1 << 17
            p = os.path.join(d, "corrupt.ndjson")
            with open(p, "w") as f:
                f.write(json.dumps(good) + "\n" + json.dumps(bad) + "\n")
            r = tlc("Trace_Curve", env={"TRACE": p, "PROP": pid}, tag=tag + "-bind", cont=True, timeout=300)
            rej = [v for v in r["violations"] if v["name"] == "Accepted"]
            if not (len(rej) == 1 and rej[0]["state"].get("h") == "2"):
                raise vlib.ToolError("binding demonstration failed: %s" % r["violations"])
            return {"corrupted_history": bad["key"], "rejected_history_index": 2, "uncorrupted_accepted": True}
    raise vlib.ToolError("binding demonstration: no suitable history")


def run(pid, tier):
    t0 = time.time()
    vlib.build_java()
    vlib.build_harness()
    d = vlib.workdir(pid.lower())
    tag = pid.lower()
    V = Verdicts(pid)
    seed = vlib.seed()
    quick = tier == "quick"
    cfgtxt = open(os.path.join(vlib.SPEC, "MC_Curve.cfg")).read()
    if not quick:
        cfgtxt = cfgtxt.replace("MaxLen = 12", "MaxLen = 40").replace("MaxSwitch = 4", "MaxSwitch = 6")
    cfgp = os.path.join(d, "mc.cfg")
    open(cfgp, "w").write(cfgtxt)
    mc = tlc("MC_Curve", cfg=cfgp[:-4], tag=tag + "-mc", workers=6, xmx="6g", timeout=5000, coverage=True)
    for v in mc["violations"]:
        V.add("model/" + v["name"], "MC_Curve property %s violated: %s" % (v["name"], str(v["state"])[:500]), {"engine": "model", "state": str(v["state"])[:2000]})
    fams = ["supply", "bisect"] if pid == "C11" else ["switch"]
    traces = []
    for fam in fams:
        cases = os.path.join(d, fam + ".cases")
        tlc("Gen_Curve", cfg="Gen_Curve_quick" if quick else "Gen_Curve_thorough", env={"OUT": cases, "FAMILY": fam}, tag="%s-gen-%s" % (tag, fam), timeout=1800, xmx="6g")
        out = os.path.join(d, fam + ".ndjson")
        args = ["curve", "index_left", cases, "--out", out] if fam == "bisect" else ["curve", "replay", cases, "--seed", seed, "--out", out]
        if vlib.record(V, args):
            traces.append(out)
    rnd = os.path.join(d, "rnd.ndjson")
    if vlib.record(V, ["curve", "record", "--seed", seed, "--n", 200 if quick else 4000, "--out", rnd]):
        traces.append(rnd)
    rt = vlib.repo_test_traces()              # look-ups recorded while the repository's own tests run (hooks on)
    if vlib.count_lines(rt["curve"]):
        traces.append(rt["curve"])
    hist, steps = validate(pid, traces, tag, V, shards=8 if quick else 14)
    bind = binding_demo(pid, traces[0], d, tag) if traces and not V.viol else {"skipped": "violations were found"}
    sample = []
    if traces:
        h = vlib.read_ndjson(traces[0])[5]
        e = h["ev"][0]
        sample = [{"history": h["key"], "rule": e.get("rule"), "via": e.get("via"), "ad": e.get("ad"), "supplied_days": [n["d"] for n in e.get("nodes", [])],
                   "switches": [x.get("order") for x in h["ev"][1:]], "lookups": len(e.get("state", {}).get("q", []))}]
    cov = dict(states=mc["distinct"], transitions=mc["generated"], action_coverage=coverage_summary(mc["out"]),
               traces_validated_against_impl=hist, evaluations=steps, distinct_nontrivial=hist,
               rule="one trace = one history of a real curve (CurveDF with each interpolator or the Python-facing Curve through the hook): construction with nodes in a TLC-enumerated supply order, look-ups at every node, +-1 day around it, between nodes and far outside, then order switches; 'evaluations' = validated states (each with ~20 look-ups incl. index values)",
               exhaustive=False, binding_demo=bind, samples=sample)
    assumptions = ["node dates are midnight day numbers; the crate's seconds-based formulas only use ratios / products of time differences",
                   "values and sensitivities to 1e-9 of the sum of absolute terms of the closed form recomputed by TLC; look-ups whose closed form overflows or is below 1e-6 are not judged",
                   "the first node of a linear-zero-rate curve is given value 1 (as the property presumes)",
                   "values across order switches compared to rounding on look-ups, bit for bit on nodes"]
    rc = V.finish()
    write_evidence(pid, tier, "model_checking", cov, assumptions, time.time() - t0, len(V.viol))
    vlib.clean_tmp()
    return rc
