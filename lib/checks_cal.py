"""C04 / C05 / C08 : calendar engine (spec: DateArith, Calendar, MC_Calendar, MC_Months, Trace_Calendar)."""
import json, os, time, copy
import vlib
from vlib import tlc, tlc_parallel, run_harness, Verdicts, write_evidence, WORK, log

QUICK = dict(W0=19752, WLen=5, SOff=1, SLen=3, Masks=["{5, 6}", "{4, 5}", "{6}"], Margin=24, NMax=3)
# year end: 2024-12-29 = 20086
THORO = dict(W0=19752, WLen=7, SOff=2, SLen=4, Masks=["{5, 6}", "{4, 5}", "{}", "{6}", "{0, 1, 2, 3, 5, 6}"], Margin=30, NMax=4)
THORO2 = dict(W0=20085, WLen=6, SOff=1, SLen=3, Masks=["{5, 6}", "{6}"], Margin=24, NMax=3)
# quick: a small family straddling the YEAR end as well (month numbers wrap 12 -> 1 there), replayed only
QUICK_YE = dict(W0=20085, WLen=5, SOff=1, SLen=2, Masks=["{5, 6}", "{6}"], Margin=24, NMax=2)


def cfg_text(p, masks, init="Init", nxt="Next", invs=True):
    s = "CONSTANTS\n  W0 = %d\n  WLen = %d\n  SOff = %d\n  SLen = %d\n  Masks = {%s}\n  Margin = %d\n  NMax = %d\n" % (
        p["W0"], p["WLen"], p["SOff"], p["SLen"], ", ".join(masks), p["Margin"], p["NMax"])
    s += "INIT %s\nNEXT %s\n" % (init, nxt)
    if invs:
        s += "INVARIANTS InWindow SeekInv CountInv RollDone AddDone AddErr ErrAgree DerivedAgree\n"
    s += "CHECK_DEADLOCK FALSE\n"
    return s


def write_cfg(d, name, text):
    p = os.path.join(d, name + ".cfg")
    with open(p, "w") as f:
        f.write(text)
    return p[:-4]


def model_check_calendar(d, params_list, tag):
    """(M) MC_Calendar, one TLC process per week mask (initial states are generated single-threaded)."""
    jobs = []
    for pi, p in enumerate(params_list):
        for mi, m in enumerate(p["Masks"]):
            cfg = write_cfg(d, "mc_%d_%d" % (pi, mi), cfg_text(p, [m]))
            jobs.append(dict(module="MC_Calendar", cfg=cfg, tag="%s-mc%d_%d" % (tag, pi, mi), timeout=3000, xmx="3g", coverage=(pi == 0 and mi == 0)))
    rs = tlc_parallel(jobs)
    gen = sum(r.get("generated", 0) for r in rs)
    dist = sum(r.get("distinct", 0) for r in rs)
    viol = [v for r in rs for v in r["violations"]]
    cov = coverage_summary(rs[0]["out"])
    return dict(generated=gen, distinct=dist, violations=viol, depth=max(r.get("depth", 0) for r in rs), coverage=cov)


def coverage_summary(out):
    """per-action counts from -coverage 1 (lines '<Action line ..>: distinct:total')"""
    import re
    res = {}
    for m in re.finditer(r"^<(\w+) line \d+, col \d+ to line \d+, col \d+ of module (\w+)>: (\d+):(\d+)", out, re.M):
        res[m.group(1)] = int(m.group(4))
    return res


def generate_cases(d, params_list, tag):
    paths = []
    for pi, p in enumerate(params_list):
        cfg = write_cfg(d, "gen_%d" % pi, cfg_text(p, p["Masks"], init="GInit", nxt="GNext", invs=False))
        out = os.path.join(d, "cases_%d.ndjson" % pi)
        r = tlc("Gen_Calendar", cfg=cfg, env={"OUT": out}, tag="%s-gen%d" % (tag, pi), timeout=900)
        paths.append(out)
    return paths


QKEY = {"roll": lambda q: "roll/%s/s=%s" % (q["m"], q["s"]),
        "add_bus": lambda q: "add_bus/%s/s=%s" % (sgn(q["n"]), q["s"]),
        "lag": lambda q: "lag/%s/s=%s" % (sgn(q["n"]), q["s"]),
        "add_days": lambda q: "add_days/%s/%s" % (sgn(q["n"]), q["m"]),
        "range": lambda q: "range", "cal_range": lambda q: "cal_range", "non_bus": lambda q: "non_bus",
        "add_months": lambda q: "add_months/%s/%s" % (q["roll"]["k"], q["m"]),
        "is_leap": lambda q: "is_leap", "imm_eom": lambda q: "imm_eom",
        "get_roll": lambda q: "get_roll/%s" % q["roll"]["k"],
        "add_months_raw": lambda q: "add_months_raw/%s" % q["roll"]["k"]}


def sgn(n):
    return "neg" if n < 0 else ("zero" if n == 0 else "pos")


def parse_set(txt):
    txt = txt.strip()
    if txt in ("{}", ""):
        return []
    return [int(x) for x in txt.strip("{}").split(",")]


def validate(pid, traces, tag, verdicts, shards=8):
    """(V) Trace_Calendar over trace files, sharded. Returns stats dict."""
    jobs = []
    shard_paths = []
    for ti, t in enumerate(traces):
        n = vlib.count_lines(t)
        k = max(1, min(shards, n // 8))
        paths, _ = vlib.split_file(t, k, t + ".s")
        for si, p in enumerate(paths):
            shard_paths.append(p)
            jobs.append(dict(module="Trace_Calendar", env={"TRACE": p, "PROP": pid}, tag="%s-v%d_%d" % (tag, ti, si), cont=True, timeout=3000, xmx="3g"))
    rs = tlc_parallel(jobs)
    events = 0
    oow = 0
    nviol = 0
    for p, r in zip(shard_paths, rs):
        events += r.get("distinct", 0)
        evs = None
        for v in r["violations"]:
            st = v["state"]
            if v["name"] == "NoOow":
                oow += int(st.get("oow", "1"))
                continue
            if v["name"] != "Accepted":
                raise vlib.ToolError("unexpected TLC report %s" % v)
            if evs is None:
                evs = vlib.read_ndjson(p)
            e = evs[int(st["i"]) - 1]
            for k in parse_set(st["bad"]):
                if k == 0:
                    small = {kk: e[kk] for kk in e if kk != "q"}
                    small["q"] = []
                    verdicts.add("cal/projection/" + e.get("kind", ""), "calendar %s: is_bus_day / is_settlement of the %s is not what its holiday lists and week masks define (a Cal against the list and mask it was built from, a union against its individually built parts)" % (e.get("key"), e.get("kind")), {"event": small, "engine": "cal"}, src=p)
                    nviol += 1
                    continue
                q = e["q"][k - 1]
                key = "cal/" + QKEY[q["f"]](q) + ("/" + q["o"] if q.get("o") in ("panic",) else "")
                case = {"event": {kk: e[kk] for kk in e if kk != "q"}, "query": q, "engine": "cal"}
                case["event"]["q"] = [q]
                verdicts.add(key, "calendar %s (%s): recorded answer %s rejected by Calendar.tla" % (e.get("key"), e.get("kind", e["op"]), json.dumps(q)), case, src=p)
                nviol += 1
    return dict(events=events, oow=oow, nviol=nviol)


def count_owned(traces, pid):
    owned = {"C04": {"roll"}, "C05": {"add_bus", "lag", "range", "add_days", "cal_range", "non_bus"}, "C08": {"add_months", "is_leap", "imm_eom", "get_roll", "add_months_raw"},
             "C20": None}[pid]
    n = 0
    distinct = set()
    samples = []
    for t in traces:
        for e in vlib.read_ndjson(t):
            for q in e["q"]:
                if owned is None or q["f"] in owned:
                    n += 1
                    distinct.add((e["key"], json.dumps(q, sort_keys=True)))
                    if len(samples) < 3 and (n % 997 == 1):
                        samples.append({"calendar": e["key"], "kind": e.get("kind", e["op"]), "query": q})
    return n, len(distinct), samples


def binding_demo(pid, trace, d, tag):
    """Anti-vacuity: corrupt one recorded answer; TLC must reject exactly that event."""
    owned = {"C04": {"roll"}, "C05": {"add_bus", "lag", "add_days"}, "C08": {"add_months", "add_months_raw"}}[pid]
    evs = vlib.read_ndjson(trace)
    for e in evs:
        ks = [k for k, q in enumerate(e["q"]) if q["f"] in owned and q.get("o") == "ok" and q.get("m", "F") != "Act"]
        if ks:
            e2 = copy.deepcopy(e)
            e2["q"] = [copy.deepcopy(e["q"][ks[len(ks) // 2]])]
            good = copy.deepcopy(e2)
            e2["q"][0]["r"] += 1
            p = os.path.join(d, "corrupt.ndjson")
            with open(p, "w") as f:
                f.write(json.dumps(good) + "\n" + json.dumps(e2) + "\n")
            r = tlc("Trace_Calendar", env={"TRACE": p, "PROP": pid}, tag=tag + "-bind", cont=True, timeout=300)
            bad = [v for v in r["violations"] if v["name"] == "Accepted"]
            ok = len(bad) == 1 and bad[0]["state"].get("i") == "2"
            if not ok:
                raise vlib.ToolError("binding demonstration failed: corrupted event not rejected exactly once: %s" % r["violations"])
            return {"corrupted_event": e2["q"][0], "rejected_at_event": 2, "uncorrupted_accepted": True}
    raise vlib.ToolError("binding demonstration found no suitable event")


def apalache_add_months(d, V):
    """Symbolic check (Apalache, SMT) that the carry arithmetic of add_months agrees with total-months arithmetic for
    EVERY start month and EVERY integer offset - the one place where the TLC bound (-1300..1300) can be removed."""
    import subprocess, shutil
    out = os.path.join(d, "apalache")
    os.makedirs(out, exist_ok=True)
    try:
        r = subprocess.run(["apalache-mc", "check", "--inv=Agree", "--length=0", "--out-dir=" + out, "--run-dir=" + os.path.join(out, "run"),
                            os.path.join(vlib.SPEC, "apalache", "AddMonthsInt.tla")], capture_output=True, text=True, timeout=600, cwd=out)
    except (subprocess.TimeoutExpired, FileNotFoundError) as ex:
        return {"outcome": "not run: %s" % type(ex).__name__}
    txt = r.stdout + r.stderr
    if "The outcome is: NoError" in txt:
        res = {"outcome": "NoError", "invariant": "Agree (YrRollAlg = YrRollDecl, NewMonthAlg = NewMonthDecl, month in 1..12)", "domain": "m in 1..12, off in Int"}
    elif "The outcome is: Error" in txt:
        V.add("model/apalache/AddMonthsInt", "Apalache found a counterexample to AddMonthsInt.Agree", {"engine": "model", "state": txt[-1500:]})
        res = {"outcome": "Error"}
    else:
        res = {"outcome": "inconclusive", "tail": txt[-300:]}
    shutil.rmtree(out, ignore_errors=True)
    return res


def run(pid, tier):
    t0 = time.time()
    vlib.build_java()
    vlib.build_harness()
    d = vlib.workdir(pid.lower())
    tag = pid.lower()
    V = Verdicts(pid)
    seed = vlib.seed()
    quick = tier == "quick"
    assumptions = [
        "calendars are projected to business/settlement bitmaps by calling is_bus_day/is_settlement on the real object; the spec judges against the bitmaps",
        "non-business runs shorter than 11 months (the code compares month numbers, the property calendar months)",
        "every generated calendar keeps one weekday working in all member and settlement calendars (otherwise no eligible date exists)",
        "TLC, the Java FP/Json modules and the harness's recording are trusted"]
    if pid in ("C04", "C05"):
        plist = [QUICK] if quick else [THORO, THORO2]
        mc = model_check_calendar(d, plist, tag)
        for v in mc["violations"]:
            V.add("model/" + v["name"], "MC_Calendar invariant %s violated: %s" % (v["name"], v["state"]), {"engine": "model", "state": v["state"]})
        gen_plist = [QUICK, QUICK_YE] if quick else [dict(THORO, Masks=["{5, 6}", "{4, 5}", "{6}"]), THORO2]
        cases = generate_cases(d, gen_plist, tag)
        traces = []
        for i, c in enumerate(cases):
            out = os.path.join(d, "gen_%d.ndjson" % i)
            if vlib.record(V, ["cal", "replay", c, out]):
                traces.append(out)
        rnd = os.path.join(d, "rnd.ndjson")
        if vlib.record(V, ["cal", "record", "--seed", seed, "--n", 600 if quick else 6000, "--out", rnd]):
            traces.append(rnd)
        rt = vlib.repo_test_traces()          # the repository's own tests, run with the trace hooks on
        if vlib.count_lines(rt["cal"]):
            traces.append(rt["cal"])
        st = validate(pid, traces, tag, V, shards=12)
        n, nd, samples = count_owned(traces, pid)
        bind = binding_demo(pid, traces[0], d, tag) if traces and not V.viol else {"skipped": "violations were found"}
        cov = dict(repo_test_events=rt["events"], states=mc["distinct"], transitions=mc["generated"], depth=mc["depth"], action_coverage=mc["coverage"],
                   traces_validated_against_impl=st["events"], evaluations=n, distinct_nontrivial=nd,
                   rule="one trace = one real calendar object (Cal / UnionCal / NamedCal / CalType) with its query battery; a query is counted once per (calendar, arguments); generated family = every holiday subset x settlement subset x mask of MC_Calendar's Init, random family = seeded calendars 1972-2198 incl. built-in names",
                   out_of_window_skipped=st["oow"], exhaustive=False, binding_demo=bind, samples=samples,
                   model_constants=[{k: v for k, v in p.items()} for p in plist])
    elif pid == "C08":
        cfgs = ["MC_Months_quick"] if quick else ["MC_Months_thorough"]
        if quick:
            mrs = [tlc("MC_Months", cfg=cfgs[0], tag=tag + "-mc", timeout=900, coverage=False)]
        else:
            # shard the thorough run by start month
            jobs = []
            for m in range(1, 13):
                txt = open(os.path.join(vlib.SPEC, "MC_Months_thorough.cfg")).read().replace("{1,2,3,4,5,6,7,8,9,10,11,12}", "{%d}" % m)
                jobs.append(dict(module="MC_Months", cfg=write_cfg(d, "mcm_%d" % m, txt), tag="%s-mc%d" % (tag, m), timeout=3000))
            mrs = tlc_parallel(jobs)
        mrs.append(tlc("MC_DateArith", tag=tag + "-da", timeout=600))
        apal = apalache_add_months(d, V)
        for r in mrs:
            for v in r["violations"]:
                V.add("model/" + v["name"], "model invariant %s violated: %s" % (v["name"], v["state"]), {"engine": "model", "state": v["state"]})
        months = os.path.join(d, "months.ndjson")
        traces = []
        if vlib.record(V, ["cal", "months", "--mode", tier, "--seed", seed, "--out", months]):
            traces.append(months)
        rnd = os.path.join(d, "rnd.ndjson")
        if vlib.record(V, ["cal", "record", "--seed", seed, "--n", 400 if quick else 4000, "--out", rnd]):
            traces.append(rnd)
        rt = vlib.repo_test_traces()
        if vlib.count_lines(rt["cal"]):
            traces.append(rt["cal"])
        st = validate(pid, traces, tag, V, shards=12)
        n, nd, samples = count_owned(traces, pid)
        bind = binding_demo(pid, rnd, d, tag) if rnd in traces and not V.viol else {"skipped": "violations were found"}
        cov = dict(repo_test_events=rt["events"], apalache_unbounded_offsets=apal, states=sum(r.get("distinct", 0) for r in mrs), transitions=sum(r.get("generated", 0) for r in mrs),
                   traces_validated_against_impl=st["events"], evaluations=n, distinct_nontrivial=nd,
                   rule="model: one state per (year, start month, start day, offset), invariant over 35 roll kinds; traces: add_months(Act) on the all-days calendar for covering (month, offset, roll) classes, get_roll / get_imm / get_eom / is_imm / is_eom for every month and is_leap_year for every year 1970-2200, add_months with other modifiers on random calendars",
                   out_of_window_skipped=st["oow"], exhaustive=False, binding_demo=bind, samples=samples)
    rc = V.finish()
    write_evidence(pid, tier, "model_checking", cov, assumptions, time.time() - t0, len(V.viol))
    vlib.clean_tmp()
    return rc
