#!/usr/bin/env python3
"""Seeded-change tooling (not a registered check).
   seedtool.py confirm <srcdir> <seed-id> <property>   confirm a sub-agent's change in a scratch worktree and file it under seeded/<seed-id>/
   seedtool.py eval <seed-id> [tier]                   apply seeded/<seed-id>/patch.diff to /repo, run the owning check, undo, record result
"""
import json, os, shutil, subprocess, sys, time
ROOT = os.path.dirname(os.path.dirname(os.path.abspath(__file__)))


def sh(cmd, cwd=None, timeout=3600):
    r = subprocess.run(cmd, shell=True, cwd=cwd, capture_output=True, text=True, timeout=timeout)
    return r.returncode, r.stdout + r.stderr


def confirm(src, sid, pid):
    wt = "/tmp/confirm-" + sid
    sh("git -C /repo worktree remove --force %s" % wt)
    rc, out = sh("git -C /repo worktree add --detach %s HEAD" % wt)
    assert rc == 0, out
    try:
        sh("cp -r /repo/target %s/target" % wt)
        res = {}
        rc, out = sh("git apply %s/patch.diff" % os.path.abspath(src), cwd=wt)
        assert rc == 0, "patch does not apply: " + out
        rc, out = sh("cargo test --offline 2>&1 | grep -E '^test result|^error' ", cwd=wt)
        res["suite_with_patch"] = out.strip().splitlines()
        assert "229 passed; 0 failed" in out, "suite does not pass with patch: " + out
        os.makedirs(wt + "/tests", exist_ok=True)
        shutil.copy(os.path.join(src, "demo.rs"), wt + "/tests/demo.rs")
        # a demonstration may need the crate-private entry points behind the hooks cfg (SEED_DEMO_CFG=1)
        demo = "cargo test --offline --test demo"
        if os.environ.get("SEED_DEMO_CFG"):
            demo = "RUSTFLAGS='--cfg rateslib_verif --check-cfg cfg(rateslib_verif)' CARGO_TARGET_DIR=target-cfg " + demo
        rc1, out1 = sh(demo + " 2>&1 | tail -15", cwd=wt)
        rcx, outx = sh(demo + " 2>&1 | grep -E 'test result'", cwd=wt)
        res["demo_with_patch"] = outx.strip()
        assert "FAILED" in outx or "failed" in outx and "0 failed" not in outx, "demo does not fail with patch: " + out1
        sh("git checkout -- rust Cargo.toml", cwd=wt)
        rc2, out2 = sh(demo + " 2>&1 | grep -E 'test result'", cwd=wt)
        res["demo_without_patch"] = out2.strip()
        assert "0 failed" in out2 and "ok" in out2, "demo does not pass without patch: " + out2
        dst = os.path.join(ROOT, "seeded", sid)
        os.makedirs(dst, exist_ok=True)
        shutil.copy(os.path.join(src, "patch.diff"), dst)
        shutil.copy(os.path.join(src, "demo.rs"), dst)
        if os.path.exists(os.path.join(src, "notes.md")):
            shutil.copy(os.path.join(src, "notes.md"), dst)
        meta = {"id": sid, "property": pid, "confirmed": res, "confirmed_at_repo_head": sh("git -C /repo rev-parse --short HEAD")[1].strip(),
                "needs": "see notes.md", "ran": ["git apply patch.diff (scratch worktree)", "cargo test --offline (229 pass)", "cargo test --offline --test demo (fails with patch, passes without)"]}
        json.dump(meta, open(os.path.join(dst, "meta.json"), "w"), indent=1)
        print("confirmed", sid, res)
    finally:
        sh("git -C /repo worktree remove --force %s" % wt)
        shutil.rmtree(wt, ignore_errors=True)


def evaluate(sid, tier="quick", pids=None):
    """Run the owning check(s) against a scratch worktree of /repo with the seeded change applied
    (VERIF_REPO_OVERRIDE), so that /repo itself is never touched and other work can continue."""
    dst = os.path.join(ROOT, "seeded", sid)
    meta = json.load(open(os.path.join(dst, "meta.json")))
    pids = pids or [meta["property"]]
    wt = "/tmp/eval-" + sid
    sh("git -C /repo worktree remove --force %s" % wt)
    shutil.rmtree(wt, ignore_errors=True)
    rc, out = sh("git -C /repo worktree add --detach %s HEAD" % wt)
    assert rc == 0, out
    work = "/tmp/evalwork-" + sid
    shutil.rmtree(work, ignore_errors=True)
    os.makedirs(work)
    # warm start: reuse the main harness build output
    if os.path.isdir(os.path.join(ROOT, "harness", "target")):
        os.makedirs(os.path.join(work, "harness-alt"), exist_ok=True)
        sh("cp -r %s %s" % (os.path.join(ROOT, "harness", "target"), os.path.join(work, "harness-alt", "target")))
    results = meta.get("detection", {})
    # the checks run from a private copy of /verif's tracked tree, so that edits made to /verif meanwhile cannot reach a running evaluation
    snap = "/tmp/evalsnap-" + sid
    shutil.rmtree(snap, ignore_errors=True)
    sh("rsync -a --exclude work --exclude target --exclude .git --exclude seeded --exclude evidence %s/ %s/" % (ROOT, snap))
    os.makedirs(os.path.join(snap, "evidence"), exist_ok=True)
    try:
        rc, out = sh("git apply %s/patch.diff" % dst, cwd=wt)
        assert rc == 0, out
        for pid in pids:
            t0 = time.time()
            rc, out = sh("VERIF_REPO_OVERRIDE=%s VERIF_WORK_OVERRIDE=%s bin/check %s %s" % (wt, work, pid, tier), cwd=snap, timeout=7200)
            lines = [l for l in out.splitlines() if l.startswith("VIOLATION") or l.startswith("  key=") or l.startswith("TOOL-ERROR")]
            results["%s/%s" % (pid, tier)] = {"rc": rc, "detected": rc == 1, "wall_s": round(time.time() - t0, 1), "lines": [l[:300] for l in lines[:6]]}
            print(sid, pid, tier, "rc=", rc, [l[:200] for l in lines[:4]])
            if rc not in (0, 1):
                print(out[-2000:])
    finally:
        sh("git -C /repo worktree remove --force %s" % wt)
        shutil.rmtree(wt, ignore_errors=True)
        shutil.rmtree(work, ignore_errors=True)
        shutil.rmtree(snap, ignore_errors=True)
    meta["detection"] = results
    meta["detection_head"] = sh("git -C %s rev-parse --short HEAD" % ROOT)[1].strip()
    json.dump(meta, open(os.path.join(dst, "meta.json"), "w"), indent=1)


if __name__ == "__main__":
    if sys.argv[1] == "confirm":
        confirm(sys.argv[2], sys.argv[3], sys.argv[4])
    elif sys.argv[1] == "eval":
        evaluate(sys.argv[2], sys.argv[3] if len(sys.argv) > 3 else "quick", sys.argv[4:] or None)
