"""C16 / C20 : persistence, constructors and totality (spec: Persist, MC_Persist, Trace_Persist; C20 also Trace_Calendar / Trace_NamedCal)."""
import json, os, time, copy, re
import vlib
from vlib import tlc, tlc_parallel, Verdicts, write_evidence
import checks_cal


def coverage_summary(out):
    res = {}
    for m in re.finditer(r"^<(\w+) line \d+, col \d+ to line \d+, col \d+ of module (\w+)>: (\d+):(\d+)", out, re.M):
        res[m.group(1)] = int(m.group(4))
    return res


def key_of(e, st):
    verdict = st.get("verdict", "").strip('"')
    detail = sorted(re.findall(r'"([^"]+)"', st.get("detail", "")))
    if e["op"] == "rt":
        return "rt/%s/%s/%s" % (e["type"], e["fmt"], e["o"])
    if e["op"] == "mut":
        if verdict == "shape":
            return "load/%s/%s" % (e["type"], "+".join(detail))
        return "load/%s/%s/%s" % (e["type"], verdict, ".".join(e["path"][-2:]))
    return "ctor/%s/%s/%s" % (e["fn"], verdict, e["o"])


def validate_persist(traces, tag, V):
    jobs, paths = [], []
    for t in traces:
        k = max(1, min(8, vlib.count_lines(t) // 400))
        ps, _ = vlib.split_file(t, k, t + ".s")
        for p in ps:
            paths.append(p)
            jobs.append(dict(module="Trace_Persist", env={"TRACE": p}, tag="%s-v%d" % (tag, len(paths)), cont=True, timeout=3000, xmx="3g"))
    rs = tlc_parallel(jobs)
    events = 0
    for p, r in zip(paths, rs):
        events += r.get("distinct", 0)
        E = None
        for v in r["violations"]:
            if E is None:
                E = vlib.read_ndjson(p)
            e = E[int(v["state"]["i"]) - 1]
            small = {k: e[k] for k in e if k not in ("before", "after")}
            V.add(key_of(e, v["state"]), "%s rejected by Persist.tla (%s %s): %s" % (e["key"], v["state"].get("verdict"), v["state"].get("detail"), json.dumps(small)[:500]),
                  {"engine": "persist", "event": e}, src=p)
    return events


def run(pid, tier):
    t0 = time.time()
    vlib.build_java()
    vlib.build_harness()
    d = vlib.workdir(pid.lower())
    tag = pid.lower()
    V = Verdicts(pid)
    seed = vlib.seed()
    quick = tier == "quick"
    mc = tlc("MC_Persist", tag=tag + "-mc", workers=4, xmx="4g", timeout=1800, coverage=True)
    for v in mc["violations"]:
        V.add("model/" + v["name"], "MC_Persist invariant %s violated: %s" % (v["name"], str(v["state"])[:500]), {"engine": "model", "state": str(v["state"])[:2000]})
    extra = {}
    if pid == "C16":
        rt = os.path.join(d, "rt.ndjson")
        traces = []
        if vlib.record(V, ["persist", "roundtrip", "--seed", seed, "--n", 60 if quick else 3000, "--out", rt], timeout=7000):
            traces.append(rt)
        events = validate_persist(traces, tag, V)
        level = "model_checking"
        rule = ("one trace = one save -> load of a real object: every serialisable type (Dual, Dual2, Cal, UnionCal, NamedCal, FXRates, Curve with every interpolation rule and order, "
                "PPSpline of the three types solved or not) x {plain JSON, tagged from_json entry point, bincode, the pickle protocol __new__(*__getnewargs__()) + __setstate__(__getstate__()) through the pymethods themselves}, plus the small pickled types (Convention, Modifier, Ccy, FXRate); doubles are random finite bit patterns (17 significant digits, "
                "extreme exponents, subnormals, -0.0), variable names include quotes, backslashes, spaces and the empty string; projection before / after and the library's == are compared by TLC")
        nontrivial = events
        bind_trace, bind_mut = (rt, "rt")
    else:
        traces = []
        mu = os.path.join(d, "mut.ndjson")
        if vlib.record(V, ["persist", "mutate", "--seed", seed, "--double", 100 if quick else 4000, "--out", mu]):
            traces.append(mu)
        ct = os.path.join(d, "ctors.ndjson")
        if vlib.record(V, ["persist", "ctors", "--out", ct]):
            traces.append(ct)
        events = validate_persist(traces, tag, V)
        # date arithmetic is total (and right): the calendar engine's traces judged under C20
        p = checks_cal.QUICK if quick else checks_cal.THORO2
        cases = checks_cal.generate_cases(d, [p], tag)
        caltraces = []
        gen = os.path.join(d, "calgen.ndjson")
        if vlib.record(V, ["cal", "replay", cases[0], gen]):
            caltraces.append(gen)
        rnd = os.path.join(d, "calrnd.ndjson")
        if vlib.record(V, ["cal", "record", "--seed", seed, "--n", 500 if quick else 6000, "--out", rnd]):
            caltraces.append(rnd)
        months = os.path.join(d, "months.ndjson")
        if vlib.record(V, ["cal", "months", "--mode", tier, "--seed", seed, "--out", months]):
            caltraces.append(months)
        st = checks_cal.validate(pid, caltraces, tag + "-cal", V, shards=10)
        nq, ndq, _ = checks_cal.count_owned(caltraces, "C20")
        # the named-calendar constructor on every token string of the grammar model
        gcases = os.path.join(d, "names.cases")
        tlc("Gen_NamedCal", cfg="Gen_NamedCal_quick" if quick else "Gen_NamedCal_thorough", env={"OUT": gcases}, tag=tag + "-gen", timeout=600)
        members = os.path.join(d, "members.ndjson")
        vlib.run_harness(["named", "members", "--out", members])
        gram = os.path.join(d, "grammar.ndjson")
        nev = 0
        if vlib.record(V, ["named", "grammar", gcases, "--seed", seed, "--out", gram]):
            ps, _ = vlib.split_file(gram, 4, gram + ".s")
            rs = tlc_parallel([dict(module="Trace_NamedCal", env={"TRACE": q, "MEMBERS": members, "PROP": pid}, tag="%s-n%d" % (tag, k), cont=True, timeout=1800) for k, q in enumerate(ps)])
            for q, r in zip(ps, rs):
                nev += r.get("distinct", 0)
                E = None
                for v in r["violations"]:
                    if E is None:
                        E = vlib.read_ndjson(q)
                    e = E[int(v["state"]["i"]) - 1]
                    V.add("ctor/NamedCal::try_new/%s" % e["o"], "NamedCal::try_new(%r) -> %s rejected" % (e["str"], e["o"]), {"engine": "named", "event": e, "env": {"MEMBERS": members}})
        extra = dict(date_calls_judged=nq, calendar_traces=st["events"], named_constructor_calls=nev, out_of_window_skipped=st["oow"])
        events += st["events"] + nev
        level = "fault_enumeration"
        rule = ("faults = malformed inputs: every single mutation (delete, duplicate, 11 replacement values of every JSON type, grow) at every path of one valid tagged document per serialisable type, plus seeded double mutations; "
                "constructor argument grids (Dual / Dual2 length grids incl. duplicate names, Ccy strings, FXPair, csolve site/value counts x allow_lsq x singular sites, degenerate FX quote sets, "
                "every NamedCal token string of the grammar model); date functions on the calendar families with day counts incl. -128, -127, 126, 127 and month offsets / roll days 1-31; a case is one (entry point, input)")
        nontrivial = events
        bind_trace, bind_mut = (mu, "mut")
    bind = {"skipped": "violations were found"}
    if not V.viol and os.path.exists(bind_trace):
        E = vlib.read_ndjson(bind_trace)
        for e in E:
            bad = copy.deepcopy(e)
            if bind_mut == "rt" and e["type"] == "Dual" and e["before"].get("d"):
                bad["after"]["d"][0][1] ^= 1          # one ulp in one derivative after loading
            elif bind_mut == "mut" and e["o"] == "ok" and e["shape"].get("t") == "Dual":
                bad["shape"]["nd"] += 1
            else:
                continue
            pth = os.path.join(d, "corrupt.ndjson")
            with open(pth, "w") as f:
                f.write(json.dumps(e) + "\n" + json.dumps(bad) + "\n")
            r = tlc("Trace_Persist", env={"TRACE": pth}, tag=tag + "-bind", cont=True, timeout=300)
            rej = [v for v in r["violations"] if v["name"] == "Accepted"]
            if not (len(rej) == 1 and rej[0]["state"].get("i") == "2"):
                raise vlib.ToolError("binding demonstration failed: %s" % r["violations"])
            bind = {"corrupted_event": e["key"], "rejected_event_index": 2, "uncorrupted_accepted": True}
            break
    sample = []
    if traces:
        E = vlib.read_ndjson(traces[0])
        sample = [{k: e[k] for k in ("key", "type", "fmt", "how", "path", "o") if k in e} for e in E[5:8]]
    cov = dict(states=mc["distinct"], transitions=mc["generated"], action_coverage=coverage_summary(mc["out"]),
               traces_validated_against_impl=events, evaluations=events, distinct_nontrivial=nontrivial, rule=rule, exhaustive=(pid == "C20"),
               binding_demo=bind, samples=sample, **extra)
    assumptions = ["NaN and infinities are outside C16 (the property says finite contents); non-ASCII currency codes are not generated",
                   "a panic caught by catch_unwind is the observable form of an abort (the harness initialises an interpreter so that a panic message formatting a PyErr cannot abort the process); a call that does not return within 60 s is reported as a hang",
                   "bincode documents are not mutated (the property speaks of JSON text)"]
    rc = V.finish()
    write_evidence(pid, tier, level, cov, assumptions, time.time() - t0, len(V.viol))
    vlib.clean_tmp()
    return rc
