"""C06 / C07 : named and combined calendars (spec: NamedCal, MC_NamedCal, Trace_NamedCal, Trace_Fixings)."""
import json, os, time, copy
import vlib
from vlib import tlc, tlc_parallel, run_harness, Verdicts, write_evidence, log


def route(V, path, r, what):
    evs = None
    n = 0
    for v in r["violations"]:
        if evs is None:
            evs = vlib.read_ndjson(path)
        st = v["state"]
        idx = int(st.get("i", st.get("h", "1"))) - 1
        e = evs[idx]
        key = e.get("key", what)
        small = {k: e[k] for k in e if k not in ("bus", "stl", "members", "settle", "ref", "dates")}
        if e["op"] == "fix":
            small["rejected_at_publication"] = st.get("pos")
            if st.get("pos"):
                p = int(st["pos"])
                small["dates_around"] = e["dates"][max(0, p - 3):p + 2]
        case = {"engine": "named", "event": e, "module": "Trace_Fixings" if e["op"] == "fix" else "Trace_NamedCal",
                "env": {"MEMBERS": MEMBERS_PATH[0]}}
        V.add(key, "%s rejected by NamedCal.tla (%s): %s" % (e["op"], v["name"], json.dumps(small)[:600]), case, src=path)
        n += 1
    return n


MEMBERS_PATH = [""]


def binding_demo(trace, members, d, tag, module="Trace_NamedCal", mutate=None, select=lambda e: True):
    evs = [x for x in vlib.read_ndjson(trace) if select(x)]
    e = copy.deepcopy(evs[len(evs) // 2])
    bad = copy.deepcopy(e)
    mutate(bad)
    p = os.path.join(d, "corrupt.ndjson")
    with open(p, "w") as f:
        f.write(json.dumps(e) + "\n" + json.dumps(bad) + "\n")
    r = tlc(module, env={"TRACE": p, "MEMBERS": members, "PROP": "bind"}, tag=tag + "-bind", cont=True, timeout=300)
    rej = [v for v in r["violations"] if v["name"] == "Accepted"]
    if not (len(rej) == 1 and rej[0]["state"].get("i", rej[0]["state"].get("h")) == "2"):
        raise vlib.ToolError("binding demonstration failed: %s" % r["violations"])
    return {"corrupted_event_key": bad.get("key"), "rejected_at_event": 2, "uncorrupted_accepted": True}


def run(pid, tier):
    t0 = time.time()
    vlib.build_java()
    vlib.build_harness()
    d = vlib.workdir(pid.lower())
    tag = pid.lower()
    V = Verdicts(pid)
    seed = vlib.seed()
    quick = tier == "quick"
    members = os.path.join(d, "members.ndjson")
    MEMBERS_PATH[0] = members
    run_harness(["named", "members", "--out", members])
    mcfg = "MC_NamedCal_quick" if quick else "MC_NamedCal_thorough"
    mc = tlc("MC_NamedCal", cfg=mcfg, tag=tag + "-mc", workers=4, timeout=1800, coverage=True, xmx="3g")
    for v in mc["violations"]:
        V.add("model/" + v["name"], "MC_NamedCal invariant %s violated: %s" % (v["name"], v["state"]), {"engine": "model", "state": v["state"]})
    assumptions = ["member calendars are projected by is_bus_day / is_settlement of the real objects on three 400-day probe windows (1970-71, 2023-24, 2199-2200) for names and on random 200-day windows for explicit unions",
                   "TLC and the harness's recording are trusted; rules are transcribed from named/*_script.py and the RULES constants, not from the data tables"]
    if pid == "C06":
        cases = os.path.join(d, "cases.ndjson")
        tlc("Gen_NamedCal", cfg="Gen_NamedCal_quick" if quick else "Gen_NamedCal_thorough", env={"OUT": cases}, tag=tag + "-gen", timeout=600)
        grammar = os.path.join(d, "grammar.ndjson")
        run_harness(["named", "grammar", cases, "--seed", seed, "--out", grammar])
        unions = os.path.join(d, "unions.ndjson")
        run_harness(["named", "unions", "--seed", seed, "--n", 400 if quick else 5000, "--out", unions])
        eq = os.path.join(d, "eq.ndjson")
        run_harness(["named", "equality", "--seed", seed, "--n", 60 if quick else 600, "--out", eq], timeout=3000)
        jobs = []
        paths = []
        for t in (grammar, unions, eq):
            k = max(1, min(6, vlib.count_lines(t) // 500))
            ps, _ = vlib.split_file(t, k, t + ".s")
            for si, p in enumerate(ps):
                paths.append(p)
                jobs.append(dict(module="Trace_NamedCal", env={"TRACE": p, "MEMBERS": members, "PROP": pid}, tag="%s-v%d" % (tag, len(paths)), cont=True, timeout=1800))
        rs = tlc_parallel(jobs)
        events = 0
        for p, r in zip(paths, rs):
            events += r.get("distinct", 0)
            route(V, p, r, "C06")
        def mut(e):
            e["bus"][0] ^= 4
        bind = binding_demo(unions, members, d, tag, mutate=mut) if not V.viol else {"skipped": "violations were found"}
        g = vlib.read_ndjson(grammar)
        acc = sum(1 for e in g if e["o"] == "ok")
        samples = [{k: e[k] for k in ("toks", "str", "o")} for e in g[1000:1003]] + [{k: e[k] for k in e if k not in ("diff_bus", "diff_stl")} for e in vlib.read_ndjson(eq)[:2]]
        cov = dict(states=mc["distinct"], transitions=mc["generated"], action_coverage=checks_cov(mc),
                   traces_validated_against_impl=events, evaluations=events, distinct_nontrivial=len({e["key"] for e in g}) + vlib.count_lines(unions) + vlib.count_lines(eq),
                   names_accepted=acc, names_rejected=len(g) - acc,
                   rule="every token sequence up to the model's MaxLen over {tgt, ldn, fed, xyz, ',', '|'} rendered in random letter case -> NamedCal::try_new (outcome class and date-for-date behaviour against the union of individually built members); seeded explicit unions of 1-4 random calendars with 0-3 settlement calendars; equality pairs differing in one business / settlement day at the range boundaries, mid-range and outside, or only structurally, in both operand orders",
                   exhaustive=True, binding_demo=bind, samples=samples)
    else:
        dump = os.path.join(d, "dump.ndjson")
        run_harness(["named", "dump", "--seed", seed, "--out", dump])
        fix = os.path.join(d, "fix.ndjson")
        run_harness(["named", "fixings", "--out", fix])
        ps, _ = vlib.split_file(dump, 4, dump + ".s")
        jobs = [dict(module="Trace_NamedCal", env={"TRACE": p, "MEMBERS": members, "PROP": pid}, tag="%s-v%d" % (tag, k), cont=True, timeout=1800) for k, p in enumerate(ps)]
        jobs.append(dict(module="Trace_Fixings", env={"TRACE": fix}, tag=tag + "-fix", cont=True, timeout=1800))
        rs = tlc_parallel(jobs)
        events = 0
        for p, r in zip(ps + [fix], rs):
            events += r.get("distinct", 0)
            route(V, p, r, "C07")
        fixstates = rs[-1].get("distinct", 0)
        def mut(e):
            e["hol"] = e["hol"][1:]
            e["nonbus"] = e["nonbus"][1:]
        bind = {"skipped": "violations were found"} if V.viol else binding_demo(ps[1], members, d, tag, mutate=mut, select=lambda e: e["op"] == "year" and e["name"] in ("tgt", "ldn", "nyc", "fed") and len(e["hol"]) > 2)
        evs = vlib.read_ndjson(dump)
        nyears = sum(1 for e in evs if e["op"] == "year")
        cov = dict(states=mc["distinct"] + fixstates, transitions=mc["generated"] + rs[-1].get("generated", 0), action_coverage=checks_cov(mc),
                   traces_validated_against_impl=events, evaluations=nyears, distinct_nontrivial=nyears,
                   fixing_publications_validated=fixstates,
                   rule="one observation per (built-in name, year 1970..2200): weekday holidays and non-business weekdays of the real table against the published rules (7 calendars exactly, 5 one-sided, all/bus empty); every documented name resolved directly and through NamedCal in random letter case; each of the nine shipped fixing histories replayed publication by publication against the calendar's business days",
                   exhaustive=True, binding_demo=bind,
                   samples=[{k: e[k] for k in ("name", "y", "hol")} for e in evs if e["op"] == "year" and e["name"] in ("ldn", "fed") and e["y"] in (2022, 2024)])
    rc = V.finish()
    write_evidence(pid, tier, "model_checking", cov, assumptions, time.time() - t0, len(V.viol))
    vlib.clean_tmp()
    return rc


def checks_cov(mc):
    import re
    res = {}
    for m in re.finditer(r"^<(\w+) line \d+, col \d+ to line \d+, col \d+ of module (\w+)>: (\d+):(\d+)", mc["out"], re.M):
        res[m.group(1)] = int(m.group(4))
    return res
